// simcheck is the simulator binary each check builds inside the instrumented
// scratch copy of the repository.
//
//	simcheck run    -prop C07 -seed S -start I -count N -budget SEC -out FILE
//	simcheck replay -in WORLD.json [-trace]
//	simcheck shrink -in WORLD.json -out MIN.json
//
// Exit status: 0 ok (run: results are in -out, violations included there),
// 3 replay did not reproduce, 2 infrastructure trouble.
package main

import (
	"encoding/json"
	"flag"
	"fmt"
	"os"
	"regexp"
	"runtime"
	"sort"
	"strconv"
	"strings"
	"time"

	h "github.com/Oudwins/zog/zz_verif/harness"
)

type Found struct {
	Class  string   `json:"class"`
	Detail string   `json:"detail"`
	Count  int      `json:"count"`
	World  *h.World `json:"world"`
}

type Output struct {
	Prop       string           `json:"property"`
	Seed       uint64           `json:"seed"`
	Start      int              `json:"start"`
	Worlds     int              `json:"worlds"`
	Ops        int64            `json:"ops"`
	Steps      int64            `json:"steps"`
	NonTrivial int              `json:"nontrivial"`
	Hashes     []uint64         `json:"hashes"`
	Faults     map[string]int64 `json:"faults"`
	Probes     map[string]int64 `json:"probes"`
	Found      []*Found         `json:"found"`
	Samples    []any            `json:"samples"`
	WallS      float64          `json:"wall_s"`
	Rule       string           `json:"rule"`
	DetChecked int              `json:"determinism_rechecks"`
	Harness    string           `json:"harness_error,omitempty"`
	Next       int              `json:"next,omitempty"`             // stopped for memory: the world index a fresh process continues from
	Nondet     []string         `json:"nondeterministic,omitempty"` // worlds whose re-execution from the recorded decisions gave another event log
	RunDigest  string           `json:"run_digest"`                 // hash over (world index, event digest, verdict) of every world, in order
}

func die(code int, format string, a ...any) {
	fmt.Fprintf(os.Stderr, "simcheck: "+format+"\n", a...)
	os.Exit(code)
}

func main() {
	if len(os.Args) < 2 {
		die(2, "usage: simcheck run|replay|shrink ...")
	}
	switch os.Args[1] {
	case "run":
		cmdRun(os.Args[2:])
	case "replay":
		cmdReplay(os.Args[2:])
	case "shrink":
		cmdShrink(os.Args[2:])
	case "list":
		var ids []string
		for id := range h.Scenarios {
			ids = append(ids, id)
		}
		sort.Strings(ids)
		for _, id := range ids {
			fmt.Println(id)
		}
	default:
		die(2, "unknown command %s", os.Args[1])
	}
}

// ---------------------------------------------------------------------------
// Race-detector reports (the -race build only). GORACE=log_path=<p> makes the
// runtime append reports to <p>.<pid>; a world during which that file grew
// raced. Reports whose stacks contain no library frame are harness bugs.

func raceLogPath() string {
	for _, kv := range strings.Fields(os.Getenv("GORACE")) {
		if strings.HasPrefix(kv, "log_path=") {
			return strings.TrimPrefix(kv, "log_path=") + "." + strconv.Itoa(os.Getpid())
		}
	}
	return ""
}

func fileSize(p string) int64 {
	if p == "" {
		return 0
	}
	st, err := os.Stat(p)
	if err != nil {
		return 0
	}
	return st.Size()
}

var frameRx = regexp.MustCompile(`(?m)^  (github\.com/Oudwins/zog[^\s(]*(?:\([^)]*\))?[^\s(]*)\(`)

// raceVerdict turns the new part of the race log into a violation (or a harness error).
func raceVerdict(logPath string, from int64) (*h.Violation, string) {
	b, err := os.ReadFile(logPath)
	if err != nil || int64(len(b)) <= from {
		return nil, ""
	}
	text := string(b[from:])
	reports := strings.Split(text, "WARNING: DATA RACE")
	for _, rep := range reports[1:] {
		// the two access stacks come first; goroutine creation stacks follow
		head := rep
		if i := strings.Index(rep, "Goroutine "); i >= 0 {
			head = rep[:i]
		}
		var lib []string
		for _, m := range frameRx.FindAllStringSubmatch(head, -1) {
			f := m[1]
			if strings.Contains(f, "/zz_verif/") {
				continue
			}
			f = strings.TrimPrefix(f, "github.com/Oudwins/zog/")
			f = strings.TrimPrefix(f, "github.com/Oudwins/")
			lib = append(lib, f)
		}
		if len(lib) == 0 && (strings.Contains(head, "harness.(*Result).fill") || strings.Contains(head, "harness.collectRaw")) {
			// no library frame, but one side is the harness reading what a call returned to it and the other side
			// another task at work: the result of one call reaches memory of another concurrent call
			first := strings.SplitN(strings.TrimSpace(rep), "\n", 2)[0]
			return &h.Violation{Prop: "C08", Class: "C08/data-race returned-result-shares-memory-with-another-task",
				Detail: first + " -- while the caller read the issues it was handed, another task was writing the same memory"}, ""
		}
		if len(lib) == 0 {
			return nil, "race report without a library frame (harness bookkeeping raced):\n" + rep
		}
		top := lib[0]
		other := lib[len(lib)-1]
		for _, f := range lib {
			if f != top {
				other = f
				break
			}
		}
		first := strings.SplitN(strings.TrimSpace(rep), "\n", 2)[0]
		return &h.Violation{Prop: "C08", Class: "C08/data-race " + top + " vs " + other,
			Detail: first + " -- " + strings.Join(lib, " <- ")}, ""
	}
	return nil, ""
}

func fnvStr(s string) uint64 {
	var hh uint64 = 1469598103934665603
	for i := 0; i < len(s); i++ {
		hh ^= uint64(s[i])
		hh *= 1099511628211
	}
	return hh
}

func worldHash(w *h.World) uint64 {
	b, _ := json.Marshal(struct {
		S []*h.Node
		T [][]h.Op
		P any
		D h.Decisions
		X map[string]int
	}{w.Schemas, w.Tasks, w.Preempts, w.Dec, w.Params})
	var hh uint64 = 1469598103934665603
	for _, c := range b {
		hh ^= uint64(c)
		hh *= 1099511628211
	}
	return hh
}

func cmdRun(args []string) {
	fs := flag.NewFlagSet("run", flag.ExitOnError)
	prop := fs.String("prop", "", "property id")
	seed := fs.Uint64("seed", 1, "base seed (VERIF_SEED)")
	start := fs.Int("start", 0, "first world index")
	stride := fs.Int("stride", 1, "index stride (number of workers)")
	count := fs.Int("count", 1000, "max number of worlds")
	budget := fs.Float64("budget", 30, "wall-clock budget in seconds")
	tier := fs.String("tier", "quick", "tier")
	out := fs.String("out", "", "output file")
	maxFound := fs.Int("max-found", 12, "distinct violation classes to keep")
	recheckAll := fs.Bool("recheck-all", false, "re-execute every world in replay mode and compare digests")
	maxMB := fs.Int("max-mem-mb", 1500, "stop (output field next = index to continue from) once the process holds this much memory; 0 = never")
	fs.Parse(args)
	sc := h.Scenarios[*prop]
	if sc == nil {
		die(2, "unknown property %q", *prop)
	}
	h.Tier = *tier
	t0 := time.Now()
	o := &Output{Prop: *prop, Seed: *seed, Start: *start, Faults: map[string]int64{}, Probes: map[string]int64{}, Rule: sc.Rule}
	seen := map[uint64]bool{}
	found := map[string]*Found{}
	var runDigest uint64 = 1
	for k := 0; k < *count; k++ {
		if time.Since(t0).Seconds() > *budget {
			break
		}
		idx := *start + k**stride
		if *maxMB > 0 && k%256 == 255 {
			// reflect.StructOf types (one set per generated schema) are never released by the runtime: a long run is
			// cut into several processes instead of growing without bound
			var ms runtime.MemStats
			runtime.ReadMemStats(&ms)
			if ms.Sys > uint64(*maxMB)<<20 {
				o.Next = idx
				break
			}
		}
		ws := h.Mix(*seed, uint64(idx))
		var w *h.World
		if sc.GenIdx != nil {
			w = sc.GenIdx(*seed, idx, *tier)
		} else {
			w = sc.Gen(h.NewRng(ws), *tier)
		}
		if w.Params["skip"] == 1 {
			continue // an index beyond the enumerated fault space of its request
		}
		w.Seed, w.Idx, w.Prop = ws, idx, *prop
		rlog := raceLogPath()
		rsize := fileSize(rlog)
		ro := h.RunWorld(sc, w, false, false)
		if rlog != "" && ro.Harness == "" {
			if v, herr := raceVerdict(rlog, rsize); herr != "" {
				ro.Harness = herr
			} else if v != nil && ro.V == nil {
				ro.V = v
			}
			if w.Params == nil {
				w.Params = map[string]int{}
			}
			w.Params["race"] = 1
		}
		if ro.Harness != "" {
			o.Harness = fmt.Sprintf("world seed=%d idx=%d: %s", *seed, idx, ro.Harness)
			h.Finalize(w, ro)
			o.Samples = append(o.Samples, w)
			break
		}
		h.Finalize(w, ro)
		o.Worlds++
		cls := ""
		if ro.V != nil {
			cls = ro.V.Class
		}
		runDigest = h.Mix(runDigest, fnvStr(fmt.Sprintf("%d|%s|%s", idx, w.Digest, cls)))
		o.Ops += ro.X.Ops
		o.Steps += ro.X.Steps
		for k, v := range ro.X.Faults {
			o.Faults[k] += v
		}
		for k, v := range ro.X.Probes {
			o.Probes[k] += v
		}
		if ro.X.NonTrivial {
			hh := worldHash(w)
			if !seen[hh] {
				seen[hh] = true
				o.NonTrivial++
				if len(o.Hashes) < 400000 {
					o.Hashes = append(o.Hashes, hh)
				}
			}
		}
		if len(o.Samples) < 3 && (ro.X.NonTrivial || k > 50) {
			o.Samples = append(o.Samples, w)
		}
		// determinism self-check on a sample of worlds: same decisions => same event log
		if ((idx / *stride)%50 == 7 || *recheckAll) && rlog == "" && w.Params["volatile"] != 1 {
			w2 := *w
			r2 := h.RunWorld(sc, &w2, true, false)
			o.DetChecked++
			if r2.Digest != ro.Digest && r2.RDigest == ro.RDigest {
				o.Probes["pool_event_drift"]++ // same observable log, other pool/scheduler events: a process-wide cache at work
			}
			if r2.RDigest != ro.RDigest || (r2.V == nil) != (ro.V == nil) || (*recheckAll && r2.Digest != ro.Digest) {
				// not a verdict by itself (the driver exits 2 unless a violation is confirmed in a fresh process): keep going,
				// a tree whose results depend on state the simulator does not own may still show reproducible violations
				if len(o.Nondet) < 3 {
					o.Nondet = append(o.Nondet, fmt.Sprintf("nondeterministic world seed=%d idx=%d: observable digest %s vs %s (full %s vs %s)", *seed, idx, ro.RDigest, r2.RDigest, ro.Digest, r2.Digest))
					o.Samples = append(o.Samples, w)
				}
				if *recheckAll {
					o.Harness = o.Nondet[0]
					break
				}
			}
		}
		if ro.V != nil {
			f := found[ro.V.Class]
			if f == nil {
				if len(found) < *maxFound {
					f = &Found{Class: ro.V.Class, Detail: ro.V.Detail, World: w}
					found[ro.V.Class] = f
					o.Found = append(o.Found, f)
				}
			}
			if f != nil {
				f.Count++
			}
		}
	}
	o.WallS = time.Since(t0).Seconds()
	o.RunDigest = strconv.FormatUint(runDigest, 16)
	b, err := json.Marshal(o)
	if err != nil {
		die(2, "marshal: %v", err)
	}
	if *out == "" {
		os.Stdout.Write(b)
	} else if err := os.WriteFile(*out, b, 0o644); err != nil {
		die(2, "%v", err)
	}
	if o.Harness != "" {
		fmt.Fprintln(os.Stderr, o.Harness)
		os.Exit(2)
	}
}

func loadWorld(path string) *h.World {
	b, err := os.ReadFile(path)
	if err != nil {
		die(2, "%v", err)
	}
	w := &h.World{}
	if err := json.Unmarshal(b, w); err != nil {
		die(2, "bad world file %s: %v", path, err)
	}
	return w
}

func cmdReplay(args []string) {
	fs := flag.NewFlagSet("replay", flag.ExitOnError)
	in := fs.String("in", "", "world file")
	trace := fs.Bool("trace", false, "print the event log")
	fs.Parse(args)
	w := loadWorld(*in)
	sc := h.Scenarios[w.Prop]
	if sc == nil {
		die(2, "unknown property %q", w.Prop)
	}
	if w.Sequence != nil {
		cls, detail, at := runSequence(sc, w.Prop, w.Sequence, w.Class)
		fmt.Printf("replay property=%s sequence of %d worlds: class=%q at world %d\n", w.Prop, len(w.Sequence.Indices), cls, at)
		if detail != "" {
			fmt.Printf("detail: %s\n", detail)
		}
		if cls != w.Class {
			fmt.Printf("MISMATCH: file says class=%q\n", w.Class)
			os.Exit(3)
		}
		if cls != "" {
			fmt.Printf("REPRODUCED property=%s class=%q\n", w.Prop, cls)
		}
		return
	}
	wantClass, wantDigest := w.Class, w.RDigest
	rlog := raceLogPath()
	rsize := fileSize(rlog)
	ro := h.RunWorld(sc, w, true, *trace)
	if rlog != "" && ro.Harness == "" {
		if v, herr := raceVerdict(rlog, rsize); herr != "" {
			ro.Harness = herr
		} else if v != nil && ro.V == nil {
			ro.V = v
		}
	}
	if ro.Harness != "" {
		die(2, "%s", ro.Harness)
	}
	if *trace {
		for _, e := range ro.X.AllEvents {
			fmt.Println("  ", e)
		}
	}
	got := ""
	detail := ""
	if ro.V != nil {
		got, detail = ro.V.Class, ro.V.Detail
	}
	fmt.Printf("replay property=%s class=%q digest=%s\n", w.Prop, got, ro.RDigest)
	if detail != "" {
		fmt.Printf("detail: %s\n", detail)
	}
	// the race detector reports each race once per process, so which of several races of a world is named
	// first depends on what the process saw before: any data race reproduces a data-race violation
	if strings.HasPrefix(wantClass, "C08/data-race") && strings.HasPrefix(got, "C08/data-race") {
		fmt.Printf("REPRODUCED property=%s class=%q (recorded as %q)\n", w.Prop, got, wantClass)
		return
	}
	if got != wantClass || (wantDigest != "" && ro.RDigest != wantDigest) {
		fmt.Printf("MISMATCH: file says class=%q digest=%s\n", wantClass, wantDigest)
		os.Exit(3)
	}
	if got != "" {
		fmt.Printf("REPRODUCED property=%s class=%q\n", w.Prop, got)
	}
}

// runSequence executes the listed world indices in order in this process and
// returns the first violation (class, detail, index).
func runSequence(sc *h.Scenario, prop string, sq *h.SeqSpec, want string) (string, string, int) {
	h.Tier = sq.Tier
	for _, idx := range sq.Indices {
		ws := h.Mix(sq.Seed, uint64(idx))
		var w *h.World
		if sc.GenIdx != nil {
			w = sc.GenIdx(sq.Seed, idx, sq.Tier)
		} else {
			w = sc.Gen(h.NewRng(ws), sq.Tier)
		}
		if w.Params["skip"] == 1 {
			continue
		}
		w.Seed, w.Idx, w.Prop = ws, idx, prop
		ro := h.RunWorld(sc, w, false, false)
		if ro.Harness != "" {
			die(2, "%s", ro.Harness)
		}
		if ro.V != nil && (want == "" || ro.V.Class == want) {
			return ro.V.Class, ro.V.Detail, idx
		}
		// (a violation of another class is what the worker saw there too; it went on, so does the replay)
		// the worker re-executed every 50th of its worlds (determinism self-check); that execution also
		// touches whatever process-wide state the library keeps, so the replay repeats it
		if st := sq.Stride; st > 0 && ((idx-idx%st)/st)%50 == 7 && w.Params["volatile"] != 1 {
			h.Finalize(w, ro)
			w2 := *w
			h.RunWorld(sc, &w2, true, false)
		}
	}
	return "", "", -1
}

func cmdShrink(args []string) {
	fs := flag.NewFlagSet("shrink", flag.ExitOnError)
	in := fs.String("in", "", "world file")
	out := fs.String("out", "", "minimised world file")
	budget := fs.Float64("budget", 30, "seconds")
	fs.Parse(args)
	w := loadWorld(*in)
	sc := h.Scenarios[w.Prop]
	if sc == nil {
		die(2, "unknown property %q", w.Prop)
	}
	min, tries := h.Shrink(sc, w, 1500, time.Duration(*budget*float64(time.Second)))
	b, _ := json.MarshalIndent(min, "", " ")
	if err := os.WriteFile(*out, b, 0o644); err != nil {
		die(2, "%v", err)
	}
	fmt.Printf("shrink: %d re-executions, class=%q\n", tries, min.Class)
}
