package harness

import (
	"math"
	"reflect"
	"sort"
	"unsafe"
)

// Fingerprint is a structural deep hash of a schema object graph, including
// unexported fields (reflection plus unsafe, no field is named). Pointers are
// hashed by the order in which they are first reached, never by address, so the
// value is stable across processes. Function values are hashed by code pointer
// and closure pointer *identity within the graph* (first-seen index).

type fpState struct {
	h    uint64
	seen map[uintptr]int
}

func (f *fpState) u64(x uint64) {
	for i := 0; i < 8; i++ {
		f.h ^= (x >> (8 * i)) & 0xff
		f.h *= 1099511628211
	}
}

func (f *fpState) str(s string) {
	f.u64(uint64(len(s)))
	for i := 0; i < len(s); i++ {
		f.h ^= uint64(s[i])
		f.h *= 1099511628211
	}
}

func Fingerprint(x any) uint64 {
	f := &fpState{h: 1469598103934665603, seen: map[uintptr]int{}}
	f.walk(reflect.ValueOf(x), 0)
	return f.h
}

func (f *fpState) ident(p uintptr) bool {
	if i, ok := f.seen[p]; ok {
		f.u64(uint64(i) + 1)
		return true
	}
	f.seen[p] = len(f.seen)
	f.u64(0)
	return false
}

func (f *fpState) walk(v reflect.Value, depth int) {
	if !v.IsValid() {
		f.u64(0xdead)
		return
	}
	if depth > 40 {
		return
	}
	f.str(v.Type().String())
	switch v.Kind() {
	case reflect.Bool:
		if v.Bool() {
			f.u64(1)
		} else {
			f.u64(2)
		}
	case reflect.Int, reflect.Int8, reflect.Int16, reflect.Int32, reflect.Int64:
		f.u64(uint64(v.Int()))
	case reflect.Uint, reflect.Uint8, reflect.Uint16, reflect.Uint32, reflect.Uint64, reflect.Uintptr:
		f.u64(v.Uint())
	case reflect.Float32, reflect.Float64:
		f.u64(math.Float64bits(v.Float()))
	case reflect.Complex64, reflect.Complex128:
		c := v.Complex()
		f.u64(math.Float64bits(real(c)))
		f.u64(math.Float64bits(imag(c)))
	case reflect.String:
		f.str(v.String())
	case reflect.Pointer:
		if v.IsNil() {
			f.u64(0)
			return
		}
		if f.ident(v.Pointer()) {
			return
		}
		f.walk(v.Elem(), depth+1)
	case reflect.Interface:
		if v.IsNil() {
			f.u64(0)
			return
		}
		f.walk(v.Elem(), depth+1)
	case reflect.Slice:
		if v.IsNil() {
			f.u64(0)
			return
		}
		f.u64(uint64(v.Len()))
		for i := 0; i < v.Len(); i++ {
			f.walk(v.Index(i), depth+1)
		}
	case reflect.Array:
		for i := 0; i < v.Len(); i++ {
			f.walk(v.Index(i), depth+1)
		}
	case reflect.Map:
		if v.IsNil() {
			f.u64(0)
			return
		}
		// keys are ordered by their own (identity-free) hash first, so that the
		// first-seen numbering of pointers does not depend on Go's map iteration order
		type ent struct {
			kh uint64
			k  reflect.Value
		}
		var ents []ent
		for _, k := range v.MapKeys() {
			kf := &fpState{h: 1469598103934665603, seen: map[uintptr]int{}}
			kf.walk(k, depth+1)
			ents = append(ents, ent{kf.h, k})
		}
		sort.Slice(ents, func(i, j int) bool { return ents[i].kh < ents[j].kh })
		f.u64(uint64(len(ents)))
		for _, e := range ents {
			f.u64(e.kh)
			f.walk(v.MapIndex(e.k), depth+1)
		}
	case reflect.Struct:
		for i := 0; i < v.NumField(); i++ {
			fv := v.Field(i)
			if !fv.CanInterface() {
				if fv.CanAddr() {
					fv = reflect.NewAt(fv.Type(), unsafe.Pointer(fv.UnsafeAddr())).Elem()
				} else {
					// copy the struct to addressable memory to reach the unexported field
					cp := reflect.New(v.Type()).Elem()
					cp.Set(v)
					fv = cp.Field(i)
					fv = reflect.NewAt(fv.Type(), unsafe.Pointer(fv.UnsafeAddr())).Elem()
				}
			}
			f.walk(fv, depth+1)
		}
	case reflect.Func:
		if v.IsNil() {
			f.u64(0)
			return
		}
		// a func value is a pointer to a closure object whose first word is the code pointer
		f.ident(v.Pointer())
	case reflect.Chan, reflect.UnsafePointer:
		f.ident(v.Pointer())
	}
}
