package harness

import (
	"fmt"
	"strconv"
	"strings"

	z "github.com/Oudwins/zog"
	"github.com/Oudwins/zog/conf"
	"github.com/Oudwins/zog/zconst"
)

// A "cfg" operation edits the global configuration between calls, the documented way
// (conf.DefaultIssueMessageMap[type][code] = text; conf.IssueFormatter = f). A call depends on the
// configuration at that moment, never on what earlier calls rendered under an earlier configuration.
var cfgTypes = []string{"string", "number", "bool", "time", "slice", "struct"}
var cfgCodes = []string{"required", "coerce", "min", "max", "len", "gt", "gte", "lt", "lte", "eq", "contains", "one_of_options", "fallback", "not_nil", "after", "true"}

func genCfgOp(r *Rng, w *World) Op {
	if r.P(0.25) {
		return Op{Kind: "cfg", Arg: Pick(r, []string{"fmt:global", "fmt:default"})}
	}
	// mostly a message this world's schemas can actually produce
	var cands [][2]string
	for _, sn := range w.Schemas {
		sn.Walk(func(n *Node) {
			cands = append(cands, [2]string{n.ZType(), "required"}, [2]string{n.ZType(), "coerce"})
			for _, t := range n.Tests {
				if t.T != "custom" && t.Code == "" && t.Msg == "" && !t.MsgFn {
					cands = append(cands, [2]string{n.ZType(), DefaultCode(t)})
				}
			}
		})
	}
	if len(cands) > 0 && r.P(0.8) {
		c := cands[r.Intn(len(cands))]
		return Op{Kind: "cfg", Arg: "msg", Input: VM(KV{"type", VS(c[0])}, KV{"code", VS(c[1])}, KV{"text", VS("edited " + strconv.Itoa(r.Intn(3)))})}
	}
	return Op{Kind: "cfg", Arg: "msg", Input: VM(KV{"type", VS(Pick(r, cfgTypes))}, KV{"code", VS(Pick(r, cfgCodes))}, KV{"text", VS("edited " + strconv.Itoa(r.Intn(3)))})}
}

// applyCfg performs a cfg operation and returns its undo.
func applyCfg(op *Op) func() {
	switch op.Arg {
	case "fmt:global":
		saved := conf.IssueFormatter
		conf.IssueFormatter = func(e *z.ZogIssue, c z.Ctx) { e.SetMessage("GLOBAL:" + e.Code) }
		return func() { conf.IssueFormatter = saved }
	case "fmt:default":
		saved := conf.IssueFormatter
		conf.IssueFormatter = conf.DefaultIssueFormatter
		return func() { conf.IssueFormatter = saved }
	case "coerce":
		// the documented global override (configuration.md): number coercers that also understand one more spelling
		savedInt, savedFloat := conf.Coercers.Int, conf.Coercers.Float64
		conf.Coercers.Int = func(data any) (any, error) {
			if s, ok := data.(string); ok && s == "abc" {
				return 7, nil
			}
			return savedInt(data)
		}
		conf.Coercers.Float64 = func(data any) (any, error) {
			if s, ok := data.(string); ok && s == "abc" {
				return 7.5, nil
			}
			return savedFloat(data)
		}
		return func() { conf.Coercers.Int, conf.Coercers.Float64 = savedInt, savedFloat }
	case "msg":
		var t, c, text string
		for _, kv := range op.Input.M {
			switch kv.K {
			case "type":
				t = kv.V.S
			case "code":
				c = kv.V.S
			case "text":
				text = kv.V.S
			}
		}
		m := conf.DefaultIssueMessageMap[zconst.ZogType(t)]
		if m == nil {
			return func() {}
		}
		old, had := m[c]
		m[c] = text
		return func() {
			if had {
				m[c] = old
			} else {
				delete(m, c)
			}
		}
	}
	return func() {}
}

// C07 – each execution is isolated from every other execution.
//
// World: one task; ops[0..n-2] are the history, ops[n-1] is the probe.
// Oracle (relational): the probe after the history (recycled pool objects
// chosen by the simulator) equals the same probe in a fresh process with the
// same visit orders; results that were not handed back stay unchanged.

func init() {
	Register(&Scenario{
		ID:  "C07",
		Gen: genC07,
		Run: runC07,
		Rule: "a world is one history of 1-12 Parse/Validate/Collect/clear operations (with WithCtxValue, execution formatters, " +
			"catching nodes, injected callback panics, callbacks that run executions of other schemas before returning) followed by a probe call; non-trivial iff the probe received at least one pool object " +
			"freed by an earlier operation; distinct by hash of (schema shapes, operation kinds and options, pool/visit decision vectors)",
	})
}

var ctxKeyVocab = []string{"k0", "k1", "lang"}
var collectKinds = []string{"", "", "CollectMap", "SanitizeMapAndCollect", "Collect", "CollectList", "SanitizeListAndCollect", "drain"}

// dupCtx passes one of the call's context keys a second time with another value: the later one counts.
func dupCtx(r *Rng, op *Op) {
	if len(op.Opts) == 0 || !r.P(0.25) {
		return
	}
	o := op.Opts[r.Intn(len(op.Opts))]
	if o.K != "ctx" {
		return
	}
	o.Val = VS(o.Key + "-dup" + strconv.Itoa(r.Intn(2)))
	if r.P(0.5) {
		op.Opts = append(op.Opts, o)
	} else {
		op.Opts = append([]OptSpec{o}, op.Opts...)
	}
}

func genExecOp(r *Rng, w *World, cfgs []GenCfg, pOpts float64) Op {
	si := r.Intn(len(w.Schemas))
	n := w.Schemas[si]
	c := cfgs[si]
	op := Op{Schema: si}
	canValidate := true
	n.Walk(func(m *Node) {
		if m.Kind == "pre" && m.CT == "str_list" {
			canValidate = false
		}
	})
	if canValidate && r.P(0.4) {
		op.Kind = "validate"
		op.Input = GenValidateInput(r, &c, n, false)
	} else {
		op.Kind = "parse"
		v, missing := GenParseInput(r, &c, n)
		if missing {
			v = VNil()
		}
		op.Input = v
	}
	for _, k := range ctxKeyVocab {
		if r.P(pOpts) {
			op.Opts = append(op.Opts, OptSpec{K: "ctx", Key: k, Val: VS(k + "-v" + strconv.Itoa(r.Intn(3)))})
		}
	}
	dupCtx(r, &op)
	for i := range op.Opts {
		op.Opts[i].Shared = r.P(0.3)
	}
	if r.P(pOpts / 2) {
		op.Opts = append(op.Opts, OptSpec{K: "fmt", Fmt: "stamp", Key: Pick(r, []string{"", "", "legacy"})})
	}
	op.Rev = r.P(0.3)
	return op
}

// withFront sends a parse operation on a struct-rooted schema through one of the front ends
// (the record arrives as a JSON document, a form body or a query string; chunked reads yield
// to the scheduler). zenv is left out: the process environment is legitimately shared.
func withFront(r *Rng, w *World, op *Op, faults bool) {
	if op.Kind != "parse" || op.Input.K != "m" {
		return
	}
	n := w.Schemas[op.Schema]
	if !(n.Kind == "struct" || (n.Kind == "ptr" && n.Elem.Kind == "struct")) {
		return
	}
	io := &IOSpec{Chunk: Pick(r, []int{0, 1, 3, 7})}
	if faults && r.P(0.15) {
		io.TruncAt = 1 + r.Intn(24)
		io.Fault = Pick(r, []string{"eof", "err", "err_with_data"})
	}
	switch Pick(r, []string{"zjson", "zhttp_json", "zhttp_form", "zhttp_query"}) {
	case "zjson":
		op.Front = "zjson"
	case "zhttp_json":
		op.Front = "zhttp"
		io.Method, io.CT, io.BodyKind = Pick(r, []string{"POST", "PUT"}), "application/json", "json"
	case "zhttp_form":
		op.Front = "zhttp"
		io.Method, io.CT, io.BodyKind = "POST", "application/x-www-form-urlencoded", "form"
	case "zhttp_query":
		op.Front = "zhttp"
		in := op.Input
		io.Method, io.BodyKind, io.QueryIn = "GET", "none", &in
	}
	op.IO = io
}

func genC07(r *Rng, tier string) *World {
	w := &World{Prop: "C07", Cfg: DrawDecCfg(r)}
	ns := 1 + r.Intn(3)
	var cfgs []GenCfg
	for i := 0; i < ns; i++ {
		c := DrawGenCfg(r, "parse")
		c.PPT = Pick(r, []float64{0, 0.2, 0.4})
		c.PPTErr = Pick(r, []float64{0, 0.3})
		c.Coercers = r.P(0.4)
		c.Opts = r.P(0.3)
		if r.P(0.06) {
			// long paths: the pooled path builder grows and is handed on
			c.MaxElems = 2
			cfgs = append(cfgs, c)
			w.Schemas = append(w.Schemas, DeepChain(r, &c, DeepSegments(r)))
			continue
		}
		cfgs = append(cfgs, c)
		sn := GenNode(r, &c, 0, true)
		if sn.Kind == "struct" && r.P(0.12) {
			sn = &Node{Kind: "ptr", Req: r.P(0.3), Elem: sn} // a top-level optional record: the pointer node, not the struct, meets the front end's provider
		}
		w.Schemas = append(w.Schemas, sn)
	}
	nh := 1 + r.Intn(Pick(r, []int{3, 6, 12}))
	coerceAt := -1
	if r.P(0.08) {
		// the global number coercers are replaced between two calls. Only the sized number schemas (Int64, Int32, Float32)
		// consult the global coercer when they run; Int and Float64 capture it when they are built - so these worlds use the sized ones
		for _, sn := range w.Schemas {
			sn.Walk(func(n *Node) {
				if n.Kind == "int" && n.W == "" {
					n.W = Pick(r, []string{"64", "32"})
				}
				if n.Kind == "float" {
					n.W = "32"
					if n.Def != nil && float64(float32(n.Def.F)) != n.Def.F {
						n.Def = nil
					}
				}
			})
		}
		coerceAt = r.Intn(nh)
	}
	var ops []Op
	for i := 0; i < nh; i++ {
		if i == coerceAt {
			ops = append(ops, Op{Kind: "cfg", Arg: "coerce"})
		}
		if r.P(0.06) {
			ops = append(ops, Op{Kind: "clear"})
			continue
		}
		if r.P(0.1) {
			ops = append(ops, genCfgOp(r, w))
			continue
		}
		op := genExecOp(r, w, cfgs, 0.35)
		op.Collect = Pick(r, collectKinds)
		if op.Kind == "parse" && r.P(0.12) {
			// an undecodable document through a front end: the factory-error paths also take and return pool objects
			n := w.Schemas[op.Schema]
			if n.Kind == "struct" || (n.Kind == "ptr" && n.Elem.Kind == "struct") {
				op.Front = "zjson"
				op.Input = VM()
				op.IO = &IOSpec{BodyKind: "raw", Body: Pick(r, []string{`{"a":`, `[1]`, `null`, ``, `nope`})}
			}
		}
		if op.Front == "" && r.P(0.2) {
			withFront(r, w, &op, true)
		}
		if r.P(0.1) {
			op.Reenter = 1 + r.Intn(4) // one of its callbacks runs executions of its own before returning
		}
		if r.P(0.08) {
			op.PanicAt = 1 + r.Intn(3)
		} else if r.P(0.05) {
			op.ErrAt = 99 // marker: the last context of this call is used once more after the call returned
		}
		ops = append(ops, op)
	}
	probe := genExecOp(r, w, cfgs, 0.3)
	if r.P(0.2) {
		withFront(r, w, &probe, false)
	}
	if r.P(0.3) {
		probe.Reenter = 1 + r.Intn(4)
	}
	ops = append(ops, probe)
	w.Tasks = [][]Op{ops}
	return w
}

func runC07(x *X) *Violation {
	w := x.W
	if len(w.Tasks) == 0 || len(w.Tasks[0]) == 0 {
		return nil
	}
	ops := w.Tasks[0]
	x.BuildSchemas()
	x.FreshRun("h/")
	edited := map[string]string{} // "type|code" -> the text the global message map holds right now
	globalCustom := false
	var undo []func()
	defer func() {
		for i := len(undo) - 1; i >= 0; i-- {
			undo[i]()
		}
	}()
	type kept struct {
		idx  int
		res  *Result
		snap []IssueRec
	}
	var keep []kept
	hadState := false
	for i := 0; i < len(ops)-1; i++ {
		op := &ops[i]
		tag := "0:" + strconv.Itoa(i)
		switch op.Kind {
		case "clear":
			x.R.ClearPools("")
		case "cfg":
			undo = append(undo, applyCfg(op))
			x.Event("cfg " + op.Arg + " " + op.Input.String())
			x.Faults["cfg_edit"]++
			switch op.Arg {
			case "fmt:global":
				globalCustom = true
			case "fmt:default":
				globalCustom = false
			case "msg":
				var t, c, text string
				for _, kv := range op.Input.M {
					switch kv.K {
					case "type":
						t = kv.V.S
					case "code":
						c = kv.V.S
					case "text":
						text = kv.V.S
					}
				}
				if conf.DefaultIssueMessageMap[zconst.ZogType(t)] != nil {
					edited[t+"|"+c] = text
				}
			}
		case "parse", "validate":
			res := x.Exec(tag, op)
			if res.NestBad != "" {
				return &Violation{Class: "C07/nested-execution-wrong-result", Detail: fmt.Sprintf("history op %d: %s", i, res.NestBad)}
			}
			if v := checkEdited(op, res, edited, globalCustom); v != nil {
				return v
			}
			if len(res.Issues) > 0 || len(op.Opts) > 0 || res.Panic != "" {
				hadState = true
			}
			if res.Panic != "" && res.Panic != "injected" {
				// a crashing history call is some other property's business (C06/C12); C07 only needs the history
				x.Probes["history_panic"]++
			}
			if res.Panic == "injected" {
				x.Probes["abort_in_history"]++
			}
			if op.ErrAt == 99 {
				// a callback kept the context it was handed and reports through it after the call has returned (a goroutine
				// that outlived the request): whatever that does, it must not reach a later call
				if rec := x.recs[tag]; rec != nil && rec.LastCtx != nil {
					func() {
						defer func() { recover() }()
						rec.LastCtx.AddIssue(&z.ZogIssue{Code: "late", Path: "late", Message: "reported after the call returned"})
					}()
					x.Faults["late_ctx_use"]++
				}
			}
			if op.Collect != "" && res.Panic == "" {
				x.Collect(tag, op.Collect, res)
				if x.SanitizeBad != "" {
					return &Violation{Class: "C07/sanitize-and-collect-output-differs", Detail: x.SanitizeBad}
				}
				x.Probes["collected"]++
			} else if res.Panic == "" {
				keep = append(keep, kept{i, res, res.Snapshot()})
			}
		}
	}
	probe := &ops[len(ops)-1]
	ptag := "0:" + strconv.Itoa(len(ops)-1)
	x.SetPhase("p/")
	reuse0 := x.R.Stats["pool_reuse_across_calls"]
	rp := x.Exec(ptag, probe)
	if v := checkEdited(probe, rp, edited, globalCustom); v != nil {
		return v
	}
	reused := x.R.Stats["pool_reuse_across_calls"] - reuse0
	if reused > 0 {
		x.Probes["pool_reuse_across_calls"]++
		x.NonTrivial = hadState || true
	}
	x.Probes["served_twice"] += x.R.Stats["pool_served_twice"]
	x.Probes["double_put"] += x.R.Stats["double_put"]

	// results that were not handed back must not have been touched by later calls
	for _, k := range keep {
		if f, d := issueFieldDiff(k.snap, k.res.Snapshot()); f != "" {
			return &Violation{Class: "C07/earlier-result-mutated field=" + f,
				Detail: fmt.Sprintf("result of history op %d changed after later calls: %s", k.idx, d)}
		}
	}

	// the same probe in a fresh process, same visit orders, benign pools
	forced := map[string][]int{}
	for s, l := range x.Dec.Rec {
		if len(s) > 2 && s[:2] == "p/" {
			forced["f/"+s[2:]] = l
		}
	}
	x.BuildSchemas() // a fresh process also has freshly built schema objects
	x.FreshRun("f/")
	for s, l := range forced {
		if len(s) > 8 && s[2:8] == "visit:" {
			x.Dec.Forced[s] = l
		}
	}
	x.Dec.Benign["f/"] = true
	rf := x.Exec(ptag, probe)

	x.Sig.WriteString(fmt.Sprintf("%d ops reused=%d", len(ops), reused))
	if rp.NestBad != "" {
		return &Violation{Class: "C07/nested-execution-wrong-result", Detail: "probe: " + rp.NestBad}
	}
	if f, d := CompareResults(rp, rf); f != "" {
		cls := "C07/probe-differs " + f
		return &Violation{Class: cls, Detail: "after history vs fresh process: " + d}
	}
	if rf.Nested > 0 {
		// the executions a callback ran in between are none of the outer execution's business: the same probe without them
		x.Probes["nested_executions"]++
		pg := *probe
		pg.Reenter = 0
		x.BuildSchemas()
		x.FreshRun("g/")
		for s, l := range forced {
			if len(s) > 8 && s[2:8] == "visit:" {
				x.Dec.Forced["g/"+s[2:]] = l
			}
		}
		x.Dec.Benign["g/"] = true
		rg := x.Exec(ptag, &pg)
		if f, d := CompareResults(rf, rg); f != "" {
			return &Violation{Class: "C07/nested-execution-changes-outer-result " + f, Detail: "with vs without executions run by a callback: " + d}
		}
	}
	return nil
}

// checkEdited: an issue whose (type, code) text was edited in the global message map is worded with the text the map
// holds at the moment of the call - unless something more specific words it (the harness' own test-level messages and
// formatters all carry a recognisable prefix).
func checkEdited(op *Op, res *Result, edited map[string]string, globalCustom bool) *Violation {
	if len(edited) == 0 || globalCustom || res.Panic != "" {
		return nil
	}
	for _, o := range op.Opts {
		if o.K == "fmt" && o.Fmt == "stamp" {
			return nil
		}
	}
	for _, a := range res.Issues {
		want, ok := edited[a.Type+"|"+a.Code]
		if !ok || a.Msg == want {
			continue
		}
		own := false
		for _, p := range []string{"MF:", "TF:", "EXEC:", "GLOBAL:", "pt-issue", "pre:", "BASE MESSAGE", "RM"} {
			if strings.HasPrefix(a.Msg, p) {
				own = true
			}
		}
		if len(a.Msg) >= 2 && a.Msg[0] == 'M' && a.Msg[1] >= '0' && a.Msg[1] <= '9' {
			own = true // z.Message("M<i>") on the test
		}
		if own {
			continue
		}
		return &Violation{Class: "C07/message-ignores-current-configuration type=" + a.Type,
			Detail: fmt.Sprintf("conf.DefaultIssueMessageMap[%s][%s] is %q at the moment of this call, the issue says %q (%s)", a.Type, a.Code, want, a.Msg, a.Full())}
	}
	return nil
}
