package harness

import (
	"fmt"
	"runtime/debug"
	"sort"
	"strings"
)

// A Scenario is one property's workload generator plus oracle.
type Scenario struct {
	ID  string
	Gen func(r *Rng, tier string) *World
	// GenIdx, when set, replaces Gen: the world is a function of (base seed, world index),
	// which lets a scenario enumerate a fault space across consecutive indices.
	GenIdx func(seed uint64, idx int, tier string) *World
	Run    func(x *X) *Violation
	Rule   string // non-triviality / distinctness rule, in words (goes to the evidence)
	// Valid, when set, tells the minimiser whether a candidate world still satisfies the scenario's preconditions.
	Valid func(w *World) bool
}

var Scenarios = map[string]*Scenario{}

func Register(s *Scenario) { Scenarios[s.ID] = s }

type RunOut struct {
	V       *Violation
	X       *X
	Digest  string
	RDigest string // observable events only
	Harness string // non-empty: the harness itself failed (infrastructure, exit 2)
}

// RunWorld executes a world. replay=false draws decisions from the world seed
// and records them; replay=true consumes w.Dec and draws nothing.
func RunWorld(sc *Scenario, w *World, replay bool, trace bool) (out RunOut) {
	rng := NewRng(Mix(w.Seed, 0xdec15105))
	var rp Decisions
	if replay {
		rp = w.Dec
		if rp == nil {
			rp = Decisions{}
		}
	}
	dec := NewDec(w.Cfg, rng, rp)
	x := NewX(w, dec)
	x.Trace = trace
	x.Replay = replay
	x.genRng = NewRng(Mix(w.Seed, 0x9e3779))
	out.X = x
	func() {
		defer func() {
			if p := recover(); p != nil {
				out.Harness = fmt.Sprintf("harness panic: %v\n%s", p, debug.Stack())
			}
		}()
		out.V = sc.Run(x)
	}()
	out.Digest = x.Finish()
	out.RDigest = x.RDig
	if out.V != nil {
		out.V.Prop = sc.ID
	}
	return out
}

// Finalize stores the consumed decisions and the digest in the world so that it
// becomes a self-contained replay file.
func Finalize(w *World, out RunOut) {
	w.Dec = out.X.Dec.Rec.Trim()
	w.Digest, w.RDigest = out.Digest, out.RDigest
	if w.Params["volatile"] == 1 {
		w.Digest, w.RDigest = "", "" // see genC06: the library's own output embeds an address
	}
	w.Faults = map[string]int64{}
	for k, v := range out.X.Faults {
		if v != 0 {
			w.Faults[k] = v
		}
	}
	if out.V != nil {
		w.Class = out.V.Class
		w.Detail = out.V.Detail
	}
}

// ---------------------------------------------------------------------------
// Comparison helpers shared by the relational oracles

func diffStrings(a, b []string) (onlyA, onlyB []string) {
	ca := map[string]int{}
	for _, s := range a {
		ca[s]++
	}
	for _, s := range b {
		if ca[s] > 0 {
			ca[s]--
		} else {
			onlyB = append(onlyB, s)
		}
	}
	for _, s := range a {
		if ca[s] > 0 {
			ca[s]--
			onlyA = append(onlyA, s)
		}
	}
	sort.Strings(onlyA)
	sort.Strings(onlyB)
	return
}

func sameStrings(a, b []string) bool {
	x, y := diffStrings(a, b)
	return len(x) == 0 && len(y) == 0
}

// issueFieldDiff names the first issue field in which two results differ
// ("" when equal). Issues are matched in (key, list order).
func issueFieldDiff(a, b []IssueRec) (field, detail string) {
	if len(a) != len(b) {
		return "count", fmt.Sprintf("%d vs %d issues: %v vs %v", len(a), len(b), pcts(a), pcts(b))
	}
	for i := range a {
		x, y := a[i], b[i]
		switch {
		case x.Key != y.Key:
			return "key", fmt.Sprintf("%q vs %q", x.Key, y.Key)
		case x.Code != y.Code:
			return "code", fmt.Sprintf("at %q: %q vs %q", x.Path, x.Code, y.Code)
		case x.Path != y.Path:
			return "path", fmt.Sprintf("%q vs %q", x.Path, y.Path)
		case x.Type != y.Type:
			return "type", fmt.Sprintf("at %q code %q: %q vs %q", x.Path, x.Code, x.Type, y.Type)
		case x.Params != y.Params:
			return "params", fmt.Sprintf("at %q code %q: %s vs %s", x.Path, x.Code, x.Params, y.Params)
		case x.Msg != y.Msg:
			return "message", fmt.Sprintf("at %q code %q: %q vs %q", x.Path, x.Code, x.Msg, y.Msg)
		case x.Err != y.Err:
			return "error", fmt.Sprintf("at %q code %q: %q vs %q", x.Path, x.Code, x.Err, y.Err)
		case x.Value != y.Value:
			return "value", fmt.Sprintf("at %q code %q: %s vs %s", x.Path, x.Code, x.Value, y.Value)
		}
	}
	return "", ""
}

func pcts(a []IssueRec) []string {
	out := make([]string, len(a))
	for i := range a {
		out[i] = a[i].PCT()
	}
	return out
}

func callsDiff(a, b []Call) (string, string) {
	if len(a) != len(b) {
		return "callback-count", fmt.Sprintf("%d vs %d callback invocations", len(a), len(b))
	}
	for i := range a {
		x, y := a[i], b[i]
		if x.Node != y.Node || x.Kind != y.Kind || x.Idx != y.Idx {
			return "callback-order", fmt.Sprintf("#%d: n%d %s#%d vs n%d %s#%d", i, x.Node, x.Kind, x.Idx, y.Node, y.Kind, y.Idx)
		}
		// anonymous struct types print their field list: the same record in another declaration order is not a difference
		sameT := x.ArgT == y.ArgT || (strings.Contains(x.ArgT, "struct {") && strings.Contains(y.ArgT, "struct {"))
		if x.Arg != y.Arg || !sameT {
			return "callback-arg", fmt.Sprintf("#%d n%d %s#%d: %s %s vs %s %s", i, x.Node, x.Kind, x.Idx, x.ArgT, x.Arg, y.ArgT, y.Arg)
		}
		if strings.Join(x.Gets, ",") != strings.Join(y.Gets, ",") {
			return "ctx-get", fmt.Sprintf("#%d n%d %s#%d: %v vs %v", i, x.Node, x.Kind, x.Idx, x.Gets, y.Gets)
		}
	}
	return "", ""
}

// CompareResults returns a class suffix and detail for the first difference.
func CompareResults(a, b *Result) (string, string) {
	if a.Panic != b.Panic {
		return "panic", fmt.Sprintf("%q vs %q", a.Panic, b.Panic)
	}
	if a.Nil != b.Nil {
		return "nil-ness", fmt.Sprintf("nil=%v vs nil=%v (%v vs %v)", a.Nil, b.Nil, a.PCTs(), b.PCTs())
	}
	if f, d := issueFieldDiff(a.Issues, b.Issues); f != "" {
		return "issue-" + f, d
	}
	if f, d := issueFieldDiff(a.First, b.First); f != "" {
		return "first-" + f, d
	}
	if a.Dest != b.Dest {
		return "dest", fmt.Sprintf("%s vs %s", a.Dest, b.Dest)
	}
	if f, d := callsDiff(a.Calls, b.Calls); f != "" {
		return f, d
	}
	return "", ""
}

// matchIssues compares actual issues with the model's, honouring "*"
// wildcards in expected path/code/type. Returns missing and spurious entries.
func matchIssues(actual []IssueRec, exp []MIssue) (missing []MIssue, spurious []IssueRec) {
	used := make([]bool, len(actual))
	var wild []MIssue
	for _, e := range exp {
		if e.Path == "*" || e.Code == "*" || e.Type == "*" {
			wild = append(wild, e)
			continue
		}
		found := false
		for i, a := range actual {
			if !used[i] && a.Path == e.Path && a.Code == e.Code && a.Type == e.Type {
				used[i] = true
				found = true
				break
			}
		}
		if !found {
			missing = append(missing, e)
		}
	}
	stars := func(e MIssue) int {
		n := 0
		for _, f := range []string{e.Path, e.Code, e.Type} {
			if f == "*" {
				n++
			}
		}
		return n
	}
	sort.SliceStable(wild, func(i, j int) bool { return stars(wild[i]) < stars(wild[j]) })
	for _, e := range wild {
		found := false
		for i, a := range actual {
			if used[i] {
				continue
			}
			if (e.Path == "*" || e.Path == a.Path) && (e.Code == "*" || e.Code == a.Code) && (e.Type == "*" || e.Type == a.Type) {
				used[i] = true
				found = true
				break
			}
		}
		if !found {
			missing = append(missing, e)
		}
	}
	for i, a := range actual {
		if !used[i] {
			spurious = append(spurious, a)
		}
	}
	return
}
