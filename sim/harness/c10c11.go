package harness

import (
	"encoding/json"
	"fmt"
	"regexp"
	"sort"
	"strconv"
	"strings"

	z "github.com/Oudwins/zog"
	"github.com/Oudwins/zog/conf"
	"github.com/Oudwins/zog/i18n"
	"github.com/Oudwins/zog/i18n/en"
	"github.com/Oudwins/zog/i18n/es"
	"github.com/Oudwins/zog/internals"
	"github.com/Oudwins/zog/zconst"
)

// AsSeen converts a logical record to what the library receives from a front
// end after decoding: JSON numbers are float64 and times are RFC 3339 strings;
// flat sources (form, query, env) carry strings, a repeated parameter is a
// list, a single one a string, none is absent.
func AsSeen(front string, v Val) Val {
	switch front {
	case "json":
		switch v.K {
		case "i":
			return VF(float64(v.I))
		case "t":
			return VS(v.S)
		case "l":
			out := VL()
			for _, e := range v.L {
				out.L = append(out.L, AsSeen(front, e))
			}
			return out
		case "m":
			out := VM()
			for _, kv := range v.M {
				out.M = append(out.M, KV{kv.K, AsSeen(front, kv.V)})
			}
			return out
		}
		return v
	case "form", "query", "env":
		switch v.K {
		case "m":
			out := VM()
			for _, kv := range v.M {
				switch kv.V.K {
				case "", "nil":
					continue
				case "l":
					if front == "env" {
						continue
					}
					switch len(kv.V.L) {
					case 0:
						continue
					case 1:
						out.M = append(out.M, KV{kv.K, VS(scalarString(kv.V.L[0]))})
					default:
						l := VL()
						for _, e := range kv.V.L {
							l.L = append(l.L, VS(scalarString(e)))
						}
						out.M = append(out.M, KV{kv.K, l})
					}
				case "m":
					out.M = append(out.M, KV{kv.K, AsSeen(front, kv.V)})
				default:
					s := scalarString(kv.V)
					if front == "env" {
						s = strings.TrimSpace(s)
					}
					out.M = append(out.M, KV{kv.K, VS(s)})
				}
			}
			return out
		}
		return v
	}
	return v
}

func frontKind(op *Op) string {
	switch op.Front {
	case "zjson":
		return "json"
	case "zenv":
		return "env"
	case "zhttp":
		if op.IO == nil {
			return "json"
		}
		return op.IO.dispatch()
	}
	return ""
}

// ModelForFront is ModelFor with the input converted to what the front end delivers.
func ModelForFront(n *Node, op *Op, res *Result) *Model {
	o := *op
	if op.Kind == "parse" {
		fk := frontKind(op)
		o.Input = AsSeen(fk, op.Input)
		if root := n; (fk == "form" || fk == "query") && o.Input.K == "m" {
			// a parameter spelled `key[]` is a list whatever the number of values sent
			for root.Kind == "ptr" {
				root = root.Elem
			}
			for _, f := range root.Fields {
				if t, ok := f.Tag(fk); ok && strings.HasSuffix(t, "[]") {
					for i := range o.Input.M {
						if o.Input.M[i].K == f.Key && o.Input.M[i].V.K != "l" {
							o.Input.M[i].V = VL(o.Input.M[i].V)
						}
					}
				}
			}
		}
	}
	return ModelFor(n, &o, res)
}

// ---------------------------------------------------------------------------
// C10 – the issue map is well-formed and addresses every issue by its path

func init() {
	Register(&Scenario{ID: "C10", Gen: genC10, Run: runC10,
		Rule: "a world is a random nested schema with struct tags (json/form/query/env/zog in all combinations, at every depth), IssuePath overrides and erroring PostTransforms, parsed through the plain map, zjson and zhttp (JSON, form, query) " +
			"front ends or validated, after predecessors some of which were aborted by an injected callback panic; checked: every issue under the key of its Path ('' <-> $root), no issue object twice, $first is exactly one issue and the first one the execution formatter observed, " +
			"paths follow the tag-priority model, SanitizeMap/List keep keys, order and messages; non-trivial iff the result has >=2 issues under >=2 keys; distinct by hash of (schema, inputs, front end, decision vectors)"})
}

func genC10(r *Rng, tier string) *World {
	w := &World{Prop: "C10", Cfg: DrawDecCfg(r)}
	c := DrawGenCfg(r, "parse")
	c.PTags = Pick(r, []float64{0, 0.5, 1})
	c.PPT = Pick(r, []float64{0, 0.2})
	c.PPTErr = 0.4
	c.PValid = Pick(r, []float64{0.3, 0.5, 0.7})
	c.PBadType = 0.1
	c.without("pre", "custom")
	front := Pick(r, []string{"map", "map", "zjson", "zhttp_json", "zhttp_form", "zhttp_query"})
	flat := front == "zhttp_form" || front == "zhttp_query"
	if flat {
		c.MaxDepth = 2 // one level of scalars and slices of scalars (filtered below)
		c.without("ptr", "time")
	}
	var root *Node
	for tries := 0; ; tries++ {
		root = GenNode(r, &c, 0, true)
		if root.Kind == "struct" || !(front != "map") || tries > 20 {
			break
		}
	}
	if !flat && r.P(0.1) {
		root = DeepChain(r, &c, DeepSegments(r))
		c.MaxElems = 2
	}
	if root.Kind != "struct" {
		front = "map"
		flat = false
	}
	if front == "map" {
		AddEmptyZogTag(r, root, 0.12)
	}
	if flat {
		// flat sources: one level of scalar / list-of-scalar fields
		var fs []*Field
		for _, f := range root.Fields {
			if f.N.IsPrim() || (f.N.Kind == "slice" && f.N.Elem.IsPrim()) {
				fs = append(fs, f)
			}
		}
		if len(fs) == 0 {
			fs = []*Field{{Key: "a", N: &Node{Kind: "string", Req: true}}}
		}
		root.Fields = fs
		// list parameters spelled `key[]` (the documented array notation): the brackets are part of the key, hence of the path
		for _, f := range root.Fields {
			if f.N.Kind == "slice" && r.P(0.4) {
				var keep []KV
				for _, t := range f.Tags {
					if t.K != "form" && t.K != "query" {
						keep = append(keep, t)
					}
				}
				f.Tags = append(keep, KV{"form", VS(f.Key + "[]")}, KV{"query", VS(f.Key + "[]")})
			}
		}
	}
	// IssuePath overrides on some tests
	if r.P(0.3) {
		root.Walk(func(n *Node) {
			for i := range n.Tests {
				if r.P(0.25) && n.Catch == nil && !n.Tests[i].TFunc {
					n.Tests[i].Path = "custom.path" + strconv.Itoa(i)
					if r.P(0.5) && len(root.Fields) > 0 {
						// the path of another node that has issues of its own: lists are revisited
						n.Tests[i].Path = SourceKey(Pick(r, root.Fields), "")
					}
				}
			}
		})
	}
	w.Family = "flat-tags"
	if r.P(0.3) {
		w.Family = "deep-tags"
	}
	if w.Family == "flat-tags" {
		// strict family: tags on the root record's fields only (open finding F-TAGS covers deeper / empty records)
		for _, f := range root.Fields {
			f.N.Walk(func(n *Node) {
				for _, ff := range n.Fields {
					ff.Tags = nil
				}
			})
		}
		if root.Kind != "struct" {
			root.Walk(func(n *Node) {
				for _, ff := range n.Fields {
					ff.Tags = nil
				}
			})
		}
	}
	w.Schemas = []*Node{root}
	var ops []Op
	nops := 1 + r.Intn(3)
	for i := 0; i < nops; i++ {
		op := Op{Schema: 0}
		if front == "map" && r.P(0.35) {
			op.Kind = "validate"
			op.Input = GenValidateInput(r, &c, root, false)
		} else {
			op.Kind = "parse"
			cc := c
			cc.NoCoerceVariants = front != "map"
			v, missing := GenParseInput(r, &cc, root)
			if missing || (front != "map" && v.K != "m") {
				v = VM()
			}
			if front != "map" {
				v = jsonSafe(v, flat)
			}
			if w.Family == "flat-tags" && root.Kind == "struct" && (v.K != "m" || len(v.M) == 0) {
				// a non-empty root record: give the first scalar field a value
				v = VM()
				for _, f := range root.Fields {
					if f.N.IsPrim() {
						v.M = append(v.M, KV{f.Key, genTyped(r, f.N.Kind)})
						break
					}
				}
				if len(v.M) == 0 {
					v.M = append(v.M, KV{"zz_unused", VS("x")})
				}
			}
			if front == "map" {
				v = NonEmptyRecords(root, v)
			}
			if flat && v.K == "m" {
				// under `key[]` one value is a list of one by definition: say so in the record
				for i := range v.M {
					for _, f := range root.Fields {
						if t, ok := f.Tag("form"); ok && f.Key == v.M[i].K && strings.HasSuffix(t, "[]") && v.M[i].V.K != "l" && !v.M[i].V.IsNil() {
							v.M[i].V = VL(v.M[i].V)
						}
					}
				}
			}
			op.Input = v
			switch front {
			case "zjson":
				op.Front = "zjson"
				op.IO = &IOSpec{Chunk: Pick(r, []int{0, 1, 3, 7}), EOFData: r.P(0.3)}
			case "zhttp_json":
				op.Front = "zhttp"
				op.IO = &IOSpec{Method: Pick(r, []string{"POST", "PUT", "PATCH"}), CT: Pick(r, []string{"application/json", "application/json; charset=utf-8"}), BodyKind: "json", Chunk: Pick(r, []int{0, 2, 5})}
			case "zhttp_form":
				op.Front = "zhttp"
				op.IO = &IOSpec{Method: "POST", CT: "application/x-www-form-urlencoded", BodyKind: "form", Chunk: Pick(r, []int{0, 4})}
			case "zhttp_query":
				op.Front = "zhttp"
				in := v
				op.IO = &IOSpec{Method: Pick(r, []string{"GET", "HEAD"}), BodyKind: "none", QueryIn: &in}
			}
		}
		op.Opts = []OptSpec{{K: "fmt", Fmt: "record"}}
		if i < nops-1 && r.P(0.15) {
			op.PanicAt = 1 + r.Intn(3)
		}
		ops = append(ops, op)
	}
	w.Tasks = [][]Op{ops}
	return w
}

// jsonSafe removes values a JSON document / form cannot carry the way the
// logical record means them (times become strings in AsSeen; nothing to do),
// and for flat sources drops nil elements and nested lists.
func jsonSafe(v Val, flat bool) Val {
	switch v.K {
	case "m":
		out := VM()
		for _, kv := range v.M {
			x := jsonSafe(kv.V, flat)
			if flat && (x.K == "m") {
				continue
			}
			if flat && x.K == "s" && x.S != strings.TrimSpace(x.S) {
				x.S = strings.TrimSpace(x.S)
			}
			out.M = append(out.M, KV{kv.K, x})
		}
		return out
	case "l":
		out := VL()
		for _, e := range v.L {
			x := jsonSafe(e, flat)
			if flat && (x.IsNil() || x.K == "l" || x.K == "m") {
				continue
			}
			out.L = append(out.L, x)
		}
		return out
	}
	return v
}

func pathKey(p string) string {
	if p == "" {
		return "$root"
	}
	return p
}

func recordEmpty(op *Op) bool {
	return op.Kind == "parse" && (op.Input.IsNil() || (op.Input.K == "m" && len(op.Input.M) == 0))
}

func runC10(x *X) *Violation {
	w := x.W
	x.BuildSchemas()
	x.FreshRun("r/")
	for i := range w.Tasks[0] {
		op := &w.Tasks[0][i]
		if op.Kind != "parse" && op.Kind != "validate" {
			continue
		}
		root := x.Built[op.Schema].N
		res := x.Exec("0:"+strconv.Itoa(i), op)
		if res.Panic == "injected" {
			x.Probes["abort_then_reuse"]++
			continue
		}
		if res.Panic != "" {
			return &Violation{Class: "C10/panic mode=" + op.Kind + " front=" + op.Front, Detail: "call did not return: " + res.Panic}
		}
		if res.IsMap && !res.Nil {
			m := res.raw.(z.ZogIssueMap)
			seen := map[*z.ZogIssue]string{}
			for _, k := range sortedKeys(m) {
				if k == "$first" {
					continue
				}
				if len(m[k]) == 0 {
					return &Violation{Class: "C10/empty-list-under-key", Detail: fmt.Sprintf("key %q holds no issue", k)}
				}
				for _, iss := range m[k] {
					if iss == nil {
						return &Violation{Class: "C10/nil-issue", Detail: fmt.Sprintf("nil issue under %q", k)}
					}
					if pathKey(iss.Path) != k {
						return &Violation{Class: "C10/issue-under-wrong-key", Detail: fmt.Sprintf("issue with Path %q (code %s) is listed under key %q", iss.Path, iss.Code, k)}
					}
					if prev, dup := seen[iss]; dup {
						return &Violation{Class: "C10/issue-listed-twice", Detail: fmt.Sprintf("the same issue object (code %s) appears under %q and %q", iss.Code, prev, k)}
					}
					seen[iss] = k
				}
			}
			first, ok := m["$first"]
			if !ok || len(first) != 1 {
				return &Violation{Class: "C10/first-not-singleton", Detail: fmt.Sprintf("$first holds %d issues (present=%v)", len(first), ok)}
			}
			if _, known := seen[first[0]]; !known {
				return &Violation{Class: "C10/first-not-among-issues", Detail: fmt.Sprintf("$first (path %q code %s) is not one of the keyed issues", first[0].Path, first[0].Code)}
			}
			// the first issue recorded = the first one the execution formatter observed
			allFormatted := true
			for _, a := range res.Issues {
				if strings.HasPrefix(a.Msg, "M") && len(a.Msg) <= 3 {
					allFormatted = false // test-level Message: never reaches the execution formatter
				}
				if strings.HasPrefix(a.Msg, "pt-issue") || strings.HasPrefix(a.Msg, "MF:") || strings.HasPrefix(a.Msg, "TF:") || a.Msg == "RM" {
					allFormatted = false
				}
			}
			if allFormatted && len(res.FmtSeen) > 0 {
				want := res.FmtSeen[0]
				got := first[0].Path + "|" + first[0].Code
				if got != want {
					return &Violation{Class: "C10/first-is-not-the-first-recorded mode=" + op.Kind,
						Detail: fmt.Sprintf("$first is %q but the first issue the execution recorded is %q (order %v)", got, want, res.FmtSeen)}
				}
				x.Probes["first_checked"]++
			}
			// sanitizers
			sm := z.Issues.SanitizeMap(m)
			if len(sm) != len(m) {
				return &Violation{Class: "C10/sanitize-keys-differ", Detail: fmt.Sprintf("%d keys vs %d", len(sm), len(m))}
			}
			for _, k := range sortedKeys(m) {
				l, ok := sm[k]
				if !ok || len(l) != len(m[k]) {
					return &Violation{Class: "C10/sanitize-keys-differ", Detail: fmt.Sprintf("key %q: %d messages for %d issues", k, len(l), len(m[k]))}
				}
				for j := range l {
					if l[j] != m[k][j].Message {
						return &Violation{Class: "C10/sanitize-message-differs", Detail: fmt.Sprintf("key %q #%d: %q vs %q", k, j, l[j], m[k][j].Message)}
					}
				}
			}
			if len(res.Keys) >= 3 && len(res.Issues) >= 2 {
				x.NonTrivial = true
			}
		} else if !res.IsMap && !res.Nil {
			l := res.raw.(z.ZogIssueList)
			sl := z.Issues.SanitizeList(l)
			if len(sl) != len(l) {
				return &Violation{Class: "C10/sanitize-list-length", Detail: fmt.Sprintf("%d vs %d", len(sl), len(l))}
			}
			for j := range l {
				if sl[j] != l[j].Message {
					return &Violation{Class: "C10/sanitize-message-differs", Detail: fmt.Sprintf("#%d: %q vs %q", j, sl[j], l[j].Message)}
				}
			}
		}
		// path grammar and tag priority: the model's paths
		m := ModelForFront(root, op, res)
		if len(m.Abstain) > 0 || m.Desync {
			x.Probes["model_abstained"]++
			continue
		}
		missing, spurious := matchIssues(res.Issues, m.Issues)
		fam := ""
		if w.Family == "deep-tags" {
			fam = "deep-tags "
		}
		if len(missing) > 0 {
			e := missing[0]
			for _, s := range spurious {
				if s.Code == e.Code && s.Type == e.Type {
					where := "top-level"
					switch {
					case recordEmpty(op):
						where = "empty-record"
					case strings.ContainsAny(e.Path, ".["):
						where = "nested"
					}
					what := "wrong-path"
					um := &Model{Mode: m.Mode, Source: "", Visits: m.Visits}
					if um.Mode == "parse" {
						o2 := *op
						o2.Input = AsSeen(frontKind(op), op.Input)
						um.Eval(stripTags(root, m.Source), MIn{V: o2.Input}, "")
						for _, ue := range um.Issues {
							if ue.Path == s.Path && ue.Code == s.Code {
								what = "tag-ignored"
							}
						}
					}
					src := m.Source
					if src == "" {
						src = "zog"
					}
					return &Violation{Class: fmt.Sprintf("C10/%s%s where=%s source=%s", fam, what, where, src),
						Detail: fmt.Sprintf("expected an issue %s, got it at %q; got %v want %v", e.PCT(), s.Path, res.PCTs(), m.PCTs())}
				}
			}
			return &Violation{Class: fmt.Sprintf("C10/%sissue-set-differs missing why=%s mode=%s front=%s", fam, e.Why, op.Kind, op.Front),
				Detail: fmt.Sprintf("expected %s; got %v want %v", e.PCT(), res.PCTs(), m.PCTs())}
		}
		if len(spurious) > 0 {
			s := spurious[0]
			return &Violation{Class: fmt.Sprintf("C10/%sissue-set-differs spurious code=%s mode=%s front=%s", fam, codeClass(s.Code), op.Kind, op.Front),
				Detail: fmt.Sprintf("unexpected %s; got %v want %v", s.PCT(), res.PCTs(), m.PCTs())}
		}
		x.Probes["paths_checked"]++
	}
	return nil
}

// stripTags removes the source tag (keeping `zog` unless source is empty, then
// removing that too) – used only to classify a wrong path as "tag ignored".
func stripTags(n *Node, source string) *Node {
	c := n.Clone()
	id := 0
	c.Number(&id)
	c.Walk(func(m *Node) {
		for _, f := range m.Fields {
			var keep []KV
			for _, t := range f.Tags {
				if source != "" && t.K == "zog" {
					keep = append(keep, t)
				}
			}
			f.Tags = keep
		}
	})
	return c
}

// ---------------------------------------------------------------------------
// C11 – every issue is fully described and its message is chosen most-specific-first

func init() {
	Register(&Scenario{ID: "C11", Gen: genC11, Run: runC11,
		Rule: "family 'catalogue': every built-in test x schema type, required/not_nil/coerce and the zjson/zhttp decode failures, under {default formatter, i18n en, i18n es, unknown language, no language, custom global formatter}, " +
			"each on fresh pools and after a dirtying history with adversarial pool recycling; family 'layers': random schemas with test-level Message, execution-level WithIssueFormatter and global formatter swaps. " +
			"Per issue: code, type, params (none inherited), non-empty message without '{{', message source by precedence and language of this execution; non-trivial iff >=1 issue was checked after >=1 dirtying operation or under a non-default formatter; " +
			"distinct by hash of (cell or schema, inputs, formatter configuration, decision vectors)"})
}

type cell struct {
	n    *Node
	in   Val
	mode string
}

func catalogue() []cell {
	S := func(t TestSpec, in string) cell {
		return cell{&Node{Kind: "string", Tests: []TestSpec{t}}, VS(in), "parse"}
	}
	var cs []cell
	for _, not := range []bool{false, true} {
		// (test, failing input, passing input) – pick the failing one for the polarity
		type tc struct {
			t         TestSpec
			bad, good string
		}
		tcs := []tc{
			{TestSpec{T: "len", N: 3}, "abcd", "abc"},
			{TestSpec{T: "oneof", L: []Val{VS("x"), VS("y")}}, "z", "x"},
			{TestSpec{T: "contains", S: "zz"}, "abc", "azzb"},
			{TestSpec{T: "prefix", S: "pre"}, "abc", "prefix"},
			{TestSpec{T: "suffix", S: "fix"}, "abc", "suffix"},
			{TestSpec{T: "upper"}, "abc", "aBc"},
			{TestSpec{T: "digit"}, "abc", "a1c"},
			{TestSpec{T: "special"}, "abc", "a!c"},
			{TestSpec{T: "email"}, "nope", "user@example.com"},
			{TestSpec{T: "url"}, "nope", "https://example.com/x"},
			{TestSpec{T: "uuid"}, "nope", "123e4567-e89b-12d3-a456-426614174000"},
			{TestSpec{T: "match", S: "^[0-9]+$"}, "abc", "123"},
		}
		for _, c := range tcs {
			t := c.t
			t.Not = not
			if not {
				cs = append(cs, S(t, c.good))
			} else {
				cs = append(cs, S(t, c.bad))
			}
		}
	}
	cs = append(cs, S(TestSpec{T: "min", N: 5}, "abc"), S(TestSpec{T: "max", N: 2}, "abc"))
	for _, k := range []string{"int", "float"} {
		num := func(t TestSpec, in Val) cell { return cell{&Node{Kind: k, Tests: []TestSpec{t}}, in, "parse"} }
		five := VI(5)
		lst := []Val{VI(1), VI(2)}
		if k == "float" {
			five = VF(5)
			lst = []Val{VF(1), VF(2)}
		}
		cs = append(cs,
			num(TestSpec{T: "eq", N: 4, F: 4}, five), num(TestSpec{T: "gt", N: 5, F: 5}, five), num(TestSpec{T: "gte", N: 6, F: 6}, five),
			num(TestSpec{T: "lt", N: 5, F: 5}, five), num(TestSpec{T: "lte", N: 4, F: 4}, five), num(TestSpec{T: "oneof", L: lst}, five))
	}
	cs = append(cs,
		cell{&Node{Kind: "bool", Tests: []TestSpec{{T: "true"}}}, VB(false), "parse"},
		cell{&Node{Kind: "bool", Tests: []TestSpec{{T: "false"}}}, VB(true), "parse"},
		cell{&Node{Kind: "bool", Tests: []TestSpec{{T: "eq", N: 1}}}, VS("false"), "parse"},
		cell{&Node{Kind: "time", Tests: []TestSpec{{T: "after", S: dayTime(3)}}}, VT(dayTime(1)), "parse"},
		cell{&Node{Kind: "time", Tests: []TestSpec{{T: "before", S: dayTime(0)}}}, VT(dayTime(1)), "parse"},
		cell{&Node{Kind: "time", Tests: []TestSpec{{T: "eq", S: dayTime(0)}}}, VS(dayTime(1)), "parse"},
	)
	sl := func(t TestSpec, in Val) cell {
		return cell{&Node{Kind: "slice", Elem: &Node{Kind: "string"}, Tests: []TestSpec{t}}, in, "parse"}
	}
	two := VL(VS("a"), VS("b"))
	cs = append(cs, sl(TestSpec{T: "min", N: 3}, two), sl(TestSpec{T: "max", N: 1}, two), sl(TestSpec{T: "len", N: 3}, two),
		sl(TestSpec{T: "contains", L: []Val{VS("zz")}}, two))
	// required / not_nil / coerce for every type, both modes where meaningful
	for _, k := range []string{"string", "int", "float", "bool", "time"} {
		cs = append(cs, cell{&Node{Kind: k, Req: true}, VNil(), "parse"}, cell{&Node{Kind: k, Req: true}, VNil(), "validate"})
		if k != "string" {
			cs = append(cs, cell{&Node{Kind: k}, VS("zzz"), "parse"})
		}
	}
	cs = append(cs,
		cell{&Node{Kind: "slice", Req: true, Elem: &Node{Kind: "int"}}, VNil(), "parse"},
		cell{&Node{Kind: "slice", Req: true, Elem: &Node{Kind: "int"}}, VNil(), "validate"},
		cell{&Node{Kind: "ptr", Req: true, Elem: &Node{Kind: "string"}}, VNil(), "parse"},
		cell{&Node{Kind: "ptr", Req: true, Elem: &Node{Kind: "int"}}, VNil(), "validate"},
		cell{&Node{Kind: "ptr", Req: true, Elem: &Node{Kind: "struct", Fields: []*Field{{Key: "a", N: &Node{Kind: "string"}}}}}, VNil(), "parse"},
		cell{&Node{Kind: "struct", Fields: []*Field{{Key: "a", N: &Node{Kind: "string"}}}}, VI(5), "parse"},
	)
	return cs
}

// "i18n:<default language>:<language this execution asks for>[:<custom language key>]"
// "i18nalt:..." installs other texts for the same languages (every template ends in " [v2]").
var fmtConfigs = []string{"default", "i18n:en:", "i18n:en:es", "i18n:en:en", "i18n:es:", "i18n:en:xx", "i18n:es:xx", "custom", "i18n:en:es:locale", "i18n:es:en:locale",
	"i18nalt:en:", "i18nalt:en:es", "i18nalt:es:en", "i18nalt:es:xx", "i18n:en::locale", "i18n:es::locale",
	"i18nreg:en:pt", "i18nreg:en:pt-BR", "i18nreg:en:pt-PT", "i18nreg:en:pt-AO", "i18n:en:es-MX", "i18n:es:en-GB"}

var altLangMaps = func() map[string]zconst.LangMap {
	out := map[string]zconst.LangMap{}
	for lang, src := range map[string]zconst.LangMap{"en": en.Map, "es": es.Map} {
		cp := zconst.LangMap{}
		for t, codes := range src {
			cp[t] = map[zconst.ZogIssueCode]string{}
			for c, msg := range codes {
				cp[t][c] = msg + " [v2]"
			}
		}
		out[lang] = cp
	}
	return out
}()

func isI18n(cfg string) bool {
	return strings.HasPrefix(cfg, "i18n:") || strings.HasPrefix(cfg, "i18nalt:") || strings.HasPrefix(cfg, "i18nreg:")
}

// regional variants of one base language, the base itself not installed: asking for the base (or for a variant that is
// not installed) is asking for a language that is not there - the default language answers
var regLangMaps = func() map[string]zconst.LangMap {
	out := map[string]zconst.LangMap{"en": en.Map}
	for lang, mark := range map[string]string{"pt-BR": " [br]", "pt-PT": " [pt]"} {
		cp := zconst.LangMap{}
		for t, codes := range es.Map {
			cp[t] = map[zconst.ZogIssueCode]string{}
			for c, msg := range codes {
				cp[t][c] = msg + mark
			}
		}
		out[lang] = cp
	}
	return out
}()

func langMapsOf(cfg string) map[string]zconst.LangMap {
	if strings.HasPrefix(cfg, "i18nalt:") {
		return altLangMaps
	}
	if strings.HasPrefix(cfg, "i18nreg:") {
		return regLangMaps
	}
	return map[string]zconst.LangMap{"en": en.Map, "es": es.Map}
}

func genC11(r *Rng, tier string) *World {
	w := &World{Prop: "C11", Cfg: DrawDecCfg(r), Params: map[string]int{}}
	w.Cfg.PoolMode = Pick(r, []string{"lifo", "random", "oldest", "mix"})
	w.Params["fmt"] = r.Intn(len(fmtConfigs))
	if r.P(0.4) {
		w.Params["fmt0"] = r.Intn(len(fmtConfigs))
	}
	var dirty []Op
	mkDirty := func(si int) {
		c := DrawGenCfg(r, "parse")
		c.PTags = 0
		c.PValid = 0.3
		c.PBadType = 0.2
		c.without("pre")
		n := GenNode(r, &c, 0, true)
		w.Schemas = append(w.Schemas, n)
		for i := 0; i < 1+r.Intn(3); i++ {
			v, missing := GenParseInput(r, &c, n)
			if missing {
				v = VNil()
			}
			op := Op{Kind: "parse", Schema: si, Input: v, Collect: Pick(r, []string{"CollectMap", "CollectMap", "Collect", ""})}
			if r.P(0.4) {
				op.Opts = append(op.Opts, OptSpec{K: "ctx", Key: "lang", Val: VS(Pick(r, []string{"es", "en", "xx"}))})
			}
			dirty = append(dirty, op)
		}
	}
	if r.P(0.5) {
		w.Family = "catalogue"
		cat := catalogue()
		ci := r.Intn(len(cat))
		w.Params["cell"] = ci
		c := cat[ci]
		w.Schemas = []*Node{c.n.Clone()}
		if r.P(0.6) {
			mkDirty(1)
		}
		op := Op{Kind: c.mode, Schema: 0, Input: c.in}
		// decode failures of the front ends are cells too
		if r.P(0.08) {
			w.Schemas[0] = &Node{Kind: "struct", Fields: []*Field{{Key: "a", N: &Node{Kind: "string"}}}}
			switch r.Intn(3) {
			case 0:
				op = Op{Kind: "parse", Front: "zjson", Input: VM(), IO: &IOSpec{BodyKind: "raw", Body: Pick(r, []string{`{"a":`, `[1]`, `null`, ``, `"x"`})}}
			case 1:
				op = Op{Kind: "parse", Front: "zhttp", Input: VM(), IO: &IOSpec{Method: "POST", CT: "application/json", BodyKind: "raw", Body: Pick(r, []string{`{"a":`, `[1]`, `nope`})}}
			default:
				op = Op{Kind: "parse", Front: "zhttp", Input: VM(), IO: &IOSpec{Method: "POST", CT: "application/x-www-form-urlencoded", BodyKind: "raw", Body: Pick(r, []string{`a=%zz`, `%`, `a=1;b=%q`})}}
			}
			w.Params["decode"] = 1
		}
		w.Tasks = [][]Op{append(dirty, op)}
	} else {
		w.Family = "layers"
		c := DrawGenCfg(r, "parse")
		c.PTags = 0
		c.Opts = true
		c.PValid = Pick(r, []float64{0.2, 0.5})
		c.PBadType = 0.15
		c.without("pre", "custom")
		n := GenNode(r, &c, 0, true)
		w.Schemas = []*Node{n}
		if r.P(0.5) {
			mkDirty(1)
		}
		var ops []Op
		for i := 0; i < 1+r.Intn(3); i++ {
			op := Op{Schema: 0}
			if r.P(0.35) {
				op.Kind = "validate"
				op.Input = GenValidateInput(r, &c, n, false)
			} else {
				op.Kind = "parse"
				v, missing := GenParseInput(r, &c, n)
				if missing {
					v = VNil()
				}
				op.Input = v
			}
			if r.P(0.35) {
				op.Opts = append(op.Opts, OptSpec{K: "fmt", Fmt: "stamp", Key: Pick(r, []string{"", "", "legacy"})})
			}
			ops = append(ops, op)
		}
		w.Tasks = [][]Op{append(dirty, ops...)}
	}
	// language of the observed operations
	for i := range w.Tasks[0] {
		op := &w.Tasks[0][i]
		if op.Schema == 0 && (op.Kind == "parse" || op.Kind == "validate") {
			f := fmtConfigs[w.Params["fmt"]]
			if isI18n(f) {
				parts := strings.Split(f, ":")
				key := "lang"
				if len(parts) > 3 {
					key = parts[3]
					// the default key must then be ignored, whatever an application keeps under it
					op.Opts = append(op.Opts, OptSpec{K: "ctx", Key: "lang", Val: Pick(r, []Val{VS("xx"), VS("es"), VS("en"), VI(42)})})
				}
				if l := parts[2]; l != "" {
					op.Opts = append(op.Opts, OptSpec{K: "ctx", Key: key, Val: VS(l)})
				}
			}
		}
	}
	return w
}

var placeholderRx = regexp.MustCompile(`\{\{[^}]*\}\}`)

func templateMatches(tmpl, msg string) bool {
	parts := placeholderRx.Split(tmpl, -1)
	var rx strings.Builder
	rx.WriteString("^")
	for i, p := range parts {
		if i > 0 {
			rx.WriteString("(?s).*")
		}
		rx.WriteString(regexp.QuoteMeta(p))
	}
	rx.WriteString("$")
	ok, _ := regexp.MatchString(rx.String(), msg)
	return ok
}

func installFormatter(cfg string) {
	switch {
	case cfg == "custom":
		conf.IssueFormatter = func(e *z.ZogIssue, c z.Ctx) { e.SetMessage("GLOBAL:" + e.Code) }
	case isI18n(cfg):
		parts := strings.Split(cfg, ":")
		def := parts[1]
		if len(parts) > 3 {
			i18n.SetLanguagesErrsMap(langMapsOf(cfg), def, i18n.WithLangKey(parts[3]))
		} else {
			i18n.SetLanguagesErrsMap(langMapsOf(cfg), def)
		}
	default:
		conf.IssueFormatter = conf.DefaultIssueFormatter
	}
}

func runC11(x *X) *Violation {
	w := x.W
	cfg := fmtConfigs[w.P("fmt")%len(fmtConfigs)]
	saved := conf.IssueFormatter
	defer func() { conf.IssueFormatter = saved }()
	// the calls on the other schema run under an *earlier* global configuration; the observed calls under the one that is
	// installed when they run (a configuration is whatever it is at that moment, not what earlier calls rendered with)
	cfg0 := cfg
	if _, ok := w.Params["fmt0"]; ok {
		cfg0 = fmtConfigs[w.P("fmt0")%len(fmtConfigs)]
	}
	installFormatter(cfg0)
	switched := cfg0 == cfg
	if cfg != "default" {
		x.Faults["cfg_swap"]++
	}
	x.BuildSchemas()
	x.FreshRun("r/")
	dirtied := 0
	for i := range w.Tasks[0] {
		op := &w.Tasks[0][i]
		if op.Kind != "parse" && op.Kind != "validate" {
			continue
		}
		if op.Schema == 0 && !switched {
			installFormatter(cfg)
			switched = true
			x.Faults["cfg_swap_between_calls"]++
		}
		tag := "0:" + strconv.Itoa(i)
		res := x.Exec(tag, op)
		if op.Schema != 0 {
			if res.Panic == "" && op.Collect != "" {
				x.Collect(tag, op.Collect, res)
			}
			dirtied++
			continue
		}
		root := x.Built[0].N
		if res.Panic != "" {
			return &Violation{Class: "C11/panic mode=" + op.Kind, Detail: "call did not return: " + res.Panic}
		}
		// which language map applies to this execution?
		var lm zconst.LangMap
		switch {
		case isI18n(cfg):
			parts := strings.Split(cfg, ":")
			lang := parts[1]
			key := "lang"
			if len(parts) > 3 {
				key = parts[3]
			}
			for _, o := range op.Opts {
				if _, installed := langMapsOf(cfg)[o.Val.S]; o.K == "ctx" && o.Key == key && o.Val.K == "s" && installed {
					lang = o.Val.S
				}
			}
			lm = langMapsOf(cfg)[lang]
		case cfg == "default":
			lm = en.Map
		}
		stamp := false
		for _, o := range op.Opts {
			if o.K == "fmt" && o.Fmt == "stamp" {
				stamp = true
			}
		}
		var m *Model
		if w.P("decode") == 0 {
			m = ModelForFront(root, op, res)
			if len(m.Abstain) > 0 || m.Desync {
				m = nil
			}
		}
		if w.P("decode") == 1 {
			if len(res.Issues) != 1 {
				return &Violation{Class: "C11/decode-failure-issue-count", Detail: fmt.Sprintf("undecodable body produced %v", res.PCTs())}
			}
			// the same JSON factory handed to a second execution that brings its own formatter: the body is spent, so this
			// is again one invalid_json issue - worded by *this* execution's formatter
			if f, ok := res.data.(internals.DpFactory); ok && res.Issues[0].Code == "invalid_json" && !stamp {
				o2 := *op
				o2.Arg = "given"
				o2.Opts = append(append([]OptSpec(nil), op.Opts...), OptSpec{K: "fmt", Fmt: "stamp"})
				x.given = f
				res2 := x.Exec(tag+"again", &o2)
				x.given = nil
				if res2.Panic != "" {
					return &Violation{Class: "C11/panic mode=parse", Detail: "second use of a JSON factory: " + res2.Panic}
				}
				if len(res2.Issues) != 1 || res2.Issues[0].Code != "invalid_json" || res2.Issues[0].Msg != "EXEC:invalid_json" {
					return &Violation{Class: "C11/execution-formatter-not-used why=decode-again", Detail: fmt.Sprintf("second execution with the same (spent) JSON factory and its own formatter: %v", res2.Fulls())}
				}
				x.Probes["decode_factory_reused"]++
			}
		}
		if w.Family == "catalogue" && w.P("decode") == 0 && len(res.Issues) != 1 {
			return &Violation{Class: "C11/catalogue-cell-issue-count mode=" + op.Kind,
				Detail: fmt.Sprintf("cell %d expected exactly one issue, got %v", w.P("cell"), res.PCTs())}
		}
		for _, a := range res.Issues {
			// find the modelled cause of this issue
			var cause *MIssue
			if m != nil {
				for k := range m.Issues {
					e := &m.Issues[k]
					if e.Path == a.Path && e.Code == a.Code && e.Type == a.Type {
						// several tests of one node may share a code: prefer the one whose own message this is
						if cause == nil {
							cause = e
						}
						if cn := nodeByID(root, e.Node); cn != nil && e.Why == "test" && e.Idx < len(cn.Tests) {
							if cn.Tests[e.Idx].Msg == a.Msg || (cn.Tests[e.Idx].MsgFn && strings.HasPrefix(a.Msg, "MF:")) {
								cause = e
								break
							}
							if cn.Tests[e.Idx].Msg == "" && !cn.Tests[e.Idx].MsgFn {
								if pc := nodeByID(root, cause.Node); cause.Why == "test" && (pc.Tests[cause.Idx].Msg != "" || pc.Tests[cause.Idx].MsgFn) {
									cause = e
								}
							}
						}
					}
				}
			}
			var ts *TestSpec
			var cn *Node
			if cause != nil {
				cn = nodeByID(root, cause.Node)
				if cause.Why == "test" && cn != nil && cause.Idx < len(cn.Tests) {
					ts = &cn.Tests[cause.Idx]
				}
			}
			if a.Code == "" && (cause == nil || cause.Why == "test") {
				return &Violation{Class: "C11/issue-without-code type=" + a.Type, Detail: a.Full()}
			}
			if a.Type == "" {
				return &Violation{Class: "C11/issue-without-type code=" + codeClass(a.Code), Detail: a.Full()}
			}
			if a.Msg == "" {
				return &Violation{Class: fmt.Sprintf("C11/empty-message code=%s type=%s", codeClass(a.Code), a.Type), Detail: a.Full()}
			}
			if strings.Contains(a.Msg, "{{") {
				return &Violation{Class: fmt.Sprintf("C11/unresolved-placeholder code=%s type=%s", codeClass(a.Code), a.Type), Detail: a.Full()}
			}
			if m != nil && cause == nil {
				continue // not a modelled issue (C02's business)
			}
			if cause == nil {
				// decode failures: source precedence still applies
				if w.P("decode") == 1 {
					if a.Code != "invalid_json" && a.Code != "invalid_form" {
						return &Violation{Class: "C11/decode-failure-code", Detail: a.Full()}
					}
					if lm != nil && !stamp {
						tmpl, ok := lm[a.Type][a.Code]
						if !ok || !templateMatches(tmpl, a.Msg) {
							return &Violation{Class: "C11/message-not-from-language-map code=" + a.Code, Detail: fmt.Sprintf("%s; template %q", a.Full(), tmpl)}
						}
					}
					x.Probes["decode_failure"]++
				}
				continue
			}
			// the options given to Required()/NotNil() are that test's own options
			if cause.Why == "required" && cn != nil && cn.ReqOpt != nil {
				ts = cn.ReqOpt
			}
			// params: exactly the test's own
			wantParams := ""
			if ts != nil && len(ts.Params) > 0 {
				m := map[string]any{}
				for _, kv := range ts.Params {
					m[kv.K] = kv.V.ToGo()
				}
				if a.Params != Canon(m) {
					return &Violation{Class: fmt.Sprintf("C11/params-not-the-tests-own why=%s code=%s", cause.Why, codeClass(a.Code)),
						Detail: fmt.Sprintf("issue %s carries params %s, the test was given Params(%s)", a.PCT(), a.Params, Canon(m))}
				}
				wantParams = "any"
			} else if ts != nil && ts.T != "custom" && ts.T != "required" {
				switch ts.T {
				case "upper", "digit", "special", "email", "url", "uuid":
				case "true", "false":
					wantParams = "any"
				default:
					key := DefaultCode(TestSpec{T: ts.T})
					wantParams = "key:" + key
				}
			}
			switch {
			case wantParams == "any":
			case wantParams == "" && a.Params != "" && a.Params != "{}":
				return &Violation{Class: fmt.Sprintf("C11/params-not-the-tests-own why=%s code=%s", cause.Why, codeClass(a.Code)),
					Detail: fmt.Sprintf("issue %s carries params %s but its cause has none", a.PCT(), a.Params)}
			case strings.HasPrefix(wantParams, "key:"):
				key := wantParams[4:]
				if !strings.HasPrefix(a.Params, "{"+strconv.Quote(key)+":") {
					return &Violation{Class: fmt.Sprintf("C11/params-not-the-tests-own why=test code=%s", codeClass(a.Code)),
						Detail: fmt.Sprintf("issue %s carries params %s, want the single key %q", a.PCT(), a.Params, key)}
				}
			}
			// message source, most specific first
			switch {
			case ts != nil && ts.Msg != "":
				if a.Msg != ts.Msg {
					return &Violation{Class: "C11/test-level-message-not-used", Detail: fmt.Sprintf("%s: want %q", a.Full(), ts.Msg)}
				}
				x.Probes["msg_test_level"]++
			case ts != nil && ts.TFunc:
				if a.Msg != "TF:"+a.Code {
					return &Violation{Class: "C11/custom-test-own-message-not-kept", Detail: a.Full()}
				}
				x.Probes["msg_test_level"]++
			case ts != nil && ts.MsgFn:
				if a.Msg != "MF:"+a.Code {
					return &Violation{Class: "C11/test-level-message-func-not-used", Detail: a.Full()}
				}
				x.Probes["msg_test_level"]++
			case stamp:
				if a.Msg != "EXEC:"+a.Code {
					return &Violation{Class: "C11/execution-formatter-not-used why=" + cause.Why, Detail: a.Full()}
				}
				x.Probes["msg_exec_level"]++
			case cfg == "custom":
				if a.Msg != "GLOBAL:"+a.Code {
					return &Violation{Class: "C11/global-formatter-not-used why=" + cause.Why, Detail: a.Full()}
				}
				x.Probes["msg_global_custom"]++
			case lm != nil:
				tmpl, ok := lm[a.Type][a.Code]
				if !ok {
					tmpl = lm[a.Type]["fallback"]
				}
				if tmpl == "" || !templateMatches(tmpl, a.Msg) {
					return &Violation{Class: fmt.Sprintf("C11/message-not-from-language-map code=%s type=%s", codeClass(a.Code), a.Type),
						Detail: fmt.Sprintf("%s; expected the template %q of this execution's language", a.Full(), tmpl)}
				}
				// the placeholder of a string test is filled with the test's own parameter, character for character
				if ts != nil && cn != nil && cn.Kind == "string" && strings.Contains(tmpl, "{{") && len(ts.Params) == 0 {
					// (the issue's own params say which of several like-coded tests this is)
					want := ""
					var pm map[string]any
					if json.Unmarshal([]byte(a.Params), &pm) == nil && len(pm) == 1 {
						for _, v := range pm {
							switch vv := v.(type) {
							case string:
								want = vv
							case []any:
								strs := make([]string, 0, len(vv))
								for _, e := range vv {
									if es, ok := e.(string); ok {
										strs = append(strs, es)
									}
								}
								if len(strs) == len(vv) {
									want = fmt.Sprint(strs)
								}
							}
						}
					}
					if want != "" && !strings.Contains(a.Msg, want) {
						return &Violation{Class: fmt.Sprintf("C11/parameter-not-rendered-verbatim code=%s", codeClass(a.Code)),
							Detail: fmt.Sprintf("%s; the test's parameter %q does not appear in the message (template %q)", a.Full(), want, tmpl)}
					}
				}
				x.Probes["msg_language_map"]++
			}
			x.Probes["issues_checked"]++
			if dirtied > 0 || cfg != "default" {
				x.NonTrivial = true
			}
		}
		// "carries the failing test's code": one expected issue of a test and one reported issue at the same place and
		// of the same type that differ in nothing but the code
		if m != nil && len(m.Abstain) == 0 && !m.Desync {
			missing, spurious := matchIssues(res.Issues, m.Issues)
			if len(missing) == 1 && len(spurious) == 1 && missing[0].Why == "test" && missing[0].Path == spurious[0].Path && missing[0].Type == spurious[0].Type {
				return &Violation{Class: "C11/issue-code-not-the-failing-tests-own mode=" + op.Kind,
					Detail: fmt.Sprintf("the failing test reports under code %q, the issue at %q carries %q (%s)", missing[0].Code, spurious[0].Path, spurious[0].Code, spurious[0].Full())}
			}
		}
	}
	return nil
}

var _ = sort.Strings
