package harness

import (
	"fmt"
	"reflect"
	"sort"
	"strconv"
	"strings"
)

// ---------------------------------------------------------------------------
// helpers: destination walking by schema

type inst struct {
	n    *Node
	path string
	v    reflect.Value
}

// instances lists every visited node instance of a destination (pointers that
// are nil end the walk), with documented-style paths built from schema keys.
func instances(n *Node, v reflect.Value, path string, out *[]inst) {
	*out = append(*out, inst{n, path, v})
	switch n.Kind {
	case "struct":
		for _, f := range n.Fields {
			fv := v.FieldByName(GoName(f.Key))
			if fv.IsValid() {
				instances(f.N, fv, joinPath(path, f.Key), out)
			}
		}
	case "slice":
		for i := 0; i < v.Len(); i++ {
			instances(n.Elem, v.Index(i), joinPath(path, "["+strconv.Itoa(i)+"]"), out)
		}
	case "ptr":
		if !v.IsNil() {
			instances(n.Elem, v.Elem(), path, out)
		}
	case "pre":
		instances(n.Elem, v, path, out)
	}
}

func issuesByPath(r *Result) map[string][]string {
	m := map[string][]string{}
	for _, i := range r.Issues {
		m[i.Path] = append(m[i.Path], fmt.Sprintf("%s|%s|%s|%s", i.Code, i.Type, i.Msg, i.Params))
	}
	for k := range m {
		sort.Strings(m[k])
	}
	return m
}

func reverseVal(v Val) Val {
	c := v.Clone()
	switch c.K {
	case "m":
		for i, j := 0, len(c.M)-1; i < j; i, j = i+1, j-1 {
			c.M[i], c.M[j] = c.M[j], c.M[i]
		}
		for i := range c.M {
			c.M[i].V = reverseVal(c.M[i].V)
		}
	case "l":
		for i := range c.L {
			c.L[i] = reverseVal(c.L[i])
		}
	}
	return c
}

func reverseFields(n *Node) *Node {
	c := n.Clone()
	c.Walk(func(m *Node) {
		for i, j := 0, len(m.Fields)-1; i < j; i, j = i+1, j-1 {
			m.Fields[i], m.Fields[j] = m.Fields[j], m.Fields[i]
		}
	})
	return c
}

// forceVisitsFrom makes phase `to` replay the visit decisions recorded in phase `from`.
func (x *X) forceVisitsFrom(from, to string) {
	for s, l := range x.Dec.Rec {
		if strings.HasPrefix(s, from+"visit:") {
			x.Dec.Forced[to+s[len(from):]] = append([]int(nil), l...)
		}
	}
	// the source phase may itself have been a forced replay (forced choices are not recorded)
	for s, l := range x.Dec.Forced {
		if strings.HasPrefix(s, from+"visit:") {
			x.Dec.Forced[to+s[len(from):]] = append([]int(nil), l...)
		}
	}
	for s := range x.Dec.fpos {
		if strings.HasPrefix(s, to) {
			delete(x.Dec.fpos, s)
		}
	}
}

func genRelWorld(r *Rng, prop string, tweak func(c *GenCfg)) *World {
	w := &World{Prop: prop, Cfg: DrawDecCfg(r)}
	c := DrawGenCfg(r, "parse")
	c.PTags = 0
	c.PPT = 0
	tweak(&c)
	root := GenNode(r, &c, 0, true)
	if prop == "C09" {
		AddEmptyZogTag(r, root, 0.12)
		// a field named "-" by its tag is a field like any other
		root.Walk(func(n *Node) {
			if n.Kind == "struct" && r.P(0.1) {
				if f := n.Fields[r.Intn(len(n.Fields))]; len(f.Tags) == 0 {
					f.Tags = []KV{{"zog", VS("-")}}
				}
			}
		})
	}
	w.Schemas = []*Node{root}
	no := 1 + r.Intn(3)
	var ops []Op
	for i := 0; i < no; i++ {
		op := Op{Schema: 0}
		if r.P(0.4) {
			op.Kind = "validate"
			op.Input = GenValidateInput(r, &c, root, false)
		} else {
			op.Kind = "parse"
			v, missing := GenParseInput(r, &c, root)
			if missing {
				v = VNil()
			}
			op.Input = NonEmptyRecords(root, v)
		}
		ops = append(ops, op)
	}
	w.Tasks = [][]Op{ops}
	return w
}

// ---------------------------------------------------------------------------
// C05 – Catch replaces any failure of its own node, and only of its own node

func init() {
	Register(&Scenario{ID: "C05", Gen: genC05, Run: runC05,
		Rule: "a world is a random schema with 1-3 catching primitives anywhere (fields, slice elements, behind pointers, nested structs) and 1-3 Parse/Validate calls whose inputs make each catching node " +
			"independently fail-by-required / fail-by-coercion / fail-by-test / succeed; the schema S and its twin S' (same schema with every Catch removed) run on the same input under the same simulator-chosen visit orders; " +
			"non-trivial iff at least one catching node fired and at least one other node was visited; distinct by hash of (schema, inputs, decision vectors)"})
}

func genC05(r *Rng, tier string) *World {
	w := genRelWorld(r, "C05", func(c *GenCfg) {
		c.PCatch = Pick(r, []float64{0.4, 0.7})
		c.PValid = Pick(r, []float64{0.4, 0.6, 0.8})
		c.PBadType = Pick(r, []float64{0.1, 0.25})
		c.PAbsent = Pick(r, []float64{0.15, 0.3})
		c.without("pre")
	})
	// defaults that are the Go zero value (and required nodes with defaults) are where "still absent" and "defaulted" blur
	w.Schemas[0].Walk(func(n *Node) {
		if n.IsPrim() && n.Catch != nil && r.P(0.3) {
			zero := map[string]Val{"string": VS(""), "int": VI(0), "float": VF(0), "bool": VB(false), "time": VT("0001-01-01T00:00:00Z")}[n.Kind]
			if n.Kind != "time" && n.Kind != "string" {
				n.Def = &zero
			}
			if r.P(0.5) {
				n.Req = true
			}
		}
	})
	// a test of a catching node that reports two issues when it fails: both are this node's failure
	w.Schemas[0].Walk(func(n *Node) {
		if (n.Kind == "string" || n.Kind == "int") && n.W == "" && n.Catch != nil {
			for i := range n.Tests {
				t := &n.Tests[i]
				if t.T == "custom" && t.Msg == "" && !t.MsgFn && len(t.Params) == 0 && !t.Reusable && r.P(0.25) {
					t.TFunc, t.Twice = true, true
				}
			}
		}
	})
	// a catching node's test may report under another path (z.IssuePath): still this node's failure, still caught
	// (only where the node has one instance per call: below a slice the shared path would not say which element failed)
	redir := 0
	var mark func(n *Node)
	mark = func(n *Node) {
		if n == nil || n.Kind == "slice" {
			return
		}
		if n.IsPrim() && n.Catch != nil {
			for i := range n.Tests {
				if n.Tests[i].Path == "" && r.P(0.15) {
					redir++
					n.Tests[i].Path = "elsewhere" + strconv.Itoa(redir)
				}
			}
		}
		for _, f := range n.Fields {
			mark(f.N)
		}
		mark(n.Elem)
	}
	mark(w.Schemas[0])
	// drop value-dependent container tests: they legitimately differ between S and S'
	w.Schemas[0].Walk(func(n *Node) {
		if n.Kind == "slice" {
			var ts []TestSpec
			for _, t := range n.Tests {
				if t.T != "contains" {
					ts = append(ts, t)
				}
			}
			n.Tests = ts
		}
	})
	return w
}

func stripCatch(n *Node) *Node {
	c := n.Clone()
	c.Walk(func(m *Node) { m.Catch = nil })
	return c
}

func zeroCatching(n *Node, v reflect.Value) {
	var is []inst
	instances(n, v, "", &is)
	for _, i := range is {
		if i.n.Catch != nil && i.v.CanSet() {
			i.v.Set(reflect.Zero(i.v.Type()))
		}
	}
}

func runC05(x *X) *Violation {
	w := x.W
	s := w.Schemas[0]
	id := 0
	s.Number(&id)
	sp := stripCatch(s)
	id = 0
	sp.Number(&id)
	nCatch := 0
	s.Walk(func(n *Node) {
		if n.Catch != nil {
			nCatch++
		}
	})
	x.Built = []*Built{
		{N: s, Z: x.E.Build(s), Typ: TypeOf(s)},
		{N: sp, Z: x.E.Build(sp), Typ: TypeOf(sp)},
	}
	x.FreshRun("a/")
	for i := range w.Tasks[0] {
		op := w.Tasks[0][i]
		if op.Kind != "parse" && op.Kind != "validate" {
			continue
		}
		tag := "0:" + strconv.Itoa(i)
		x.SetPhase("a" + strconv.Itoa(i) + "/")
		op.Schema = 0
		ra := x.Exec(tag, &op)
		x.forceVisitsFrom("a"+strconv.Itoa(i)+"/", "b"+strconv.Itoa(i)+"/")
		x.SetPhase("b" + strconv.Itoa(i) + "/")
		op.Schema = 1
		rb := x.Exec(tag+"'", &op)
		if ra.Panic != "" || rb.Panic != "" {
			if ra.Panic != rb.Panic {
				return &Violation{Class: "C05/panic mode=" + op.Kind, Detail: fmt.Sprintf("with Catch: %q, without: %q", ra.Panic, rb.Panic)}
			}
			continue
		}
		ia, ib := issuesByPath(ra), issuesByPath(rb)
		var insts []inst
		instances(s, ra.destPtr.Elem(), "", &insts)
		var instsB []inst
		instances(sp, rb.destPtr.Elem(), "", &instsB)
		bAt := map[string]reflect.Value{}
		for _, in := range instsB {
			if in.n.IsPrim() {
				bAt[in.path] = in.v
			}
		}
		catchPaths := map[string]bool{}
		fired := 0
		for _, in := range insts {
			if in.n.Catch == nil {
				continue
			}
			p := in.path
			catchPaths[p] = true
			place := "field"
			if strings.HasSuffix(p, "]") {
				place = "element"
			}
			if len(ia[p]) > 0 {
				return &Violation{Class: fmt.Sprintf("C05/catching-node-reported-issue kind=%s place=%s mode=%s", in.n.Kind, place, op.Kind),
					Detail: fmt.Sprintf("node with Catch at %q contributed %v", p, ia[p])}
			}
			failedElsewhere := false
			for _, t := range in.n.Tests {
				if t.Path == "" {
					continue
				}
				catchPaths[t.Path] = true
				if len(ia[t.Path]) > 0 {
					return &Violation{Class: fmt.Sprintf("C05/catching-node-reported-issue kind=%s place=%s mode=%s", in.n.Kind, place, op.Kind),
						Detail: fmt.Sprintf("node with Catch at %q contributed %v under its test's IssuePath %q", p, ia[t.Path], t.Path)}
				}
				if len(ib[t.Path]) > 0 {
					failedElsewhere = true
				}
			}
			got := destToModel(in.n, in.v)
			if len(ib[p]) > 0 || failedElsewhere {
				fired++
				want := typedVal(in.n, *in.n.Catch)
				if !modelEqual(got, want) {
					return &Violation{Class: fmt.Sprintf("C05/catch-value-not-applied kind=%s place=%s mode=%s", in.n.Kind, place, op.Kind),
						Detail: fmt.Sprintf("%q fails without Catch (%v) but holds %s instead of the catch value %s", p, ib[p], Canon(got), Canon(want))}
				}
			} else if bv, ok := bAt[p]; ok {
				want := destToModel(in.n, bv)
				if !modelEqual(got, want) {
					return &Violation{Class: fmt.Sprintf("C05/valid-value-replaced kind=%s place=%s mode=%s", in.n.Kind, place, op.Kind),
						Detail: fmt.Sprintf("%q has no failure without Catch, yet holds %s instead of the parsed value %s", p, Canon(got), Canon(want))}
				}
			}
		}
		if fired > 0 {
			x.Probes["catch_fired"]++
			if len(insts) > fired+1 {
				x.NonTrivial = true
			}
		}
		// everywhere else: same issues, same values
		paths := map[string]bool{}
		for p := range ia {
			paths[p] = true
		}
		for p := range ib {
			paths[p] = true
		}
		var ps []string
		for p := range paths {
			ps = append(ps, p)
		}
		sort.Strings(ps)
		for _, p := range ps {
			if catchPaths[p] {
				continue
			}
			if strings.Join(ia[p], ";") != strings.Join(ib[p], ";") {
				what := "issue-swallowed"
				if len(ia[p]) > len(ib[p]) {
					what = "issue-added"
				}
				return &Violation{Class: fmt.Sprintf("C05/non-catching-node-differs %s mode=%s", what, op.Kind),
					Detail: fmt.Sprintf("at %q: with Catch elsewhere %v, without %v (all with: %v; without: %v)", p, ia[p], ib[p], ra.PCTs(), rb.PCTs())}
			}
		}
		if ra.Nil != (len(ra.Issues) == 0) {
			return &Violation{Class: "C05/nil-ness mode=" + op.Kind, Detail: fmt.Sprintf("nil=%v with %d issues", ra.Nil, len(ra.Issues))}
		}
		zeroCatching(s, ra.destPtr.Elem())
		zeroCatching(s, rb.destPtr.Elem())
		da, db := CanonV(ra.destPtr.Elem()), CanonV(rb.destPtr.Elem())
		if da != db {
			return &Violation{Class: "C05/non-catching-value-differs mode=" + op.Kind,
				Detail: fmt.Sprintf("destinations differ outside catching nodes: %s vs %s", da, db)}
		}
	}
	_ = nCatch
	return nil
}

// ---------------------------------------------------------------------------
// C09 – results do not depend on map iteration or key insertion order

func init() {
	Register(&Scenario{ID: "C09", Gen: genC09, Run: runC09,
		Rule: "a world is one (schema, data, options) executed under 2-6 different permutation vectors of every field visit (identity first, then simulator-drawn), with the schema map built in reversed insertion order " +
			"and the input keys reversed on odd runs; the issue map without $first (path -> multiset of code,type,message,params) and, when empty, the destination must be identical in all runs; " +
			"non-trivial iff at least one struct with >=2 fields was visited in >=2 different orders; distinct by hash of (schema, inputs, decision vectors)"})
}

func genC09(r *Rng, tier string) *World {
	w := genRelWorld(r, "C09", func(c *GenCfg) {
		c.MaxFields = 2 + r.Intn(4)
		c.PPT = Pick(r, []float64{0, 0.2})
		c.PCatch = Pick(r, []float64{0.15, 0.4})
		c.PValid = Pick(r, []float64{0.4, 0.7})
	})
	w.Params = map[string]int{"perms": 2 + r.Intn(5)}
	return w
}

func runC09(x *X) *Violation {
	w := x.W
	s := w.Schemas[0]
	id := 0
	s.Number(&id)
	rev := reverseFields(s)
	id = 0
	rev.Number(&id)
	x.Built = []*Built{
		{N: s, Z: x.E.Build(s), Typ: TypeOf(s)},
		{N: rev, Z: x.E.Build(rev), Typ: TypeOf(s)},
	}
	k := w.P("perms")
	if k < 2 {
		k = 2
	}
	// a root struct of <= 3 fields without nested structs is visited exactly once per call: sweep ALL its orders
	sweep := 0
	if s.Kind == "struct" && len(s.Fields) >= 2 && len(s.Fields) <= 3 {
		nested := false
		for _, f := range s.Fields {
			f.N.Walk(func(n *Node) {
				if n.Kind == "struct" {
					nested = true
				}
			})
		}
		if !nested {
			sweep = 2
			if len(s.Fields) == 3 {
				sweep = 6
			}
			k = sweep
			x.Probes["exhaustive_order_sweeps"]++
		}
	}
	x.FreshRun("v0/")
	saveP := x.Dec.Cfg.VisitP
	defer func() { x.Dec.Cfg.VisitP = saveP }()
	for i := range w.Tasks[0] {
		op := w.Tasks[0][i]
		if op.Kind != "parse" && op.Kind != "validate" {
			continue
		}
		var base *Result
		orders := map[string]bool{}
		for j := 0; j < k; j++ {
			ph := fmt.Sprintf("o%dv%d/", i, j)
			x.SetPhase(ph)
			if j == 0 {
				x.Dec.Benign[ph] = true
			} else if sweep > 0 {
				// the j-th permutation as Lehmer digits of the visit stream (pool decisions stay drawn)
				site := StructSiteFor(op.Kind)
				digits := []int{j % 2}
				if sweep == 6 {
					digits = []int{j / 2, j % 2}
				}
				x.Dec.Forced[ph+"visit:"+site] = digits
			} else {
				x.Dec.Cfg.VisitP = 1
			}
			o := op
			o.Schema = j % 2
			if j%2 == 1 {
				o.Input = reverseVal(op.Input)
			}
			res := x.Exec(fmt.Sprintf("0:%d.%d", i, j), &o)
			x.Dec.Cfg.VisitP = saveP
			sig := ""
			multi := false
			for _, v := range structVisits(res.Visits) {
				sig += strings.Join(v.Keys, ",") + ";"
				if len(v.Keys) >= 2 {
					multi = true
				}
			}
			if multi {
				orders[sig] = true
			}
			if base == nil {
				base = res
				continue
			}
			if res.Panic != base.Panic {
				return &Violation{Class: "C09/panic-depends-on-order mode=" + op.Kind, Detail: fmt.Sprintf("%q vs %q", base.Panic, res.Panic)}
			}
			a, b := issuesByPath(base), issuesByPath(res)
			if d := diffIssueMaps(a, b); d != "" {
				return &Violation{Class: "C09/issues-depend-on-order mode=" + op.Kind,
					Detail: fmt.Sprintf("visit order %s vs identity: %s", sig, d)}
			}
			if base.Nil != res.Nil {
				return &Violation{Class: "C09/nil-ness-depends-on-order mode=" + op.Kind, Detail: fmt.Sprintf("nil=%v vs nil=%v", base.Nil, res.Nil)}
			}
			if len(base.Issues) == 0 && base.Dest != res.Dest {
				return &Violation{Class: "C09/destination-depends-on-order mode=" + op.Kind,
					Detail: fmt.Sprintf("visit order %s: %s vs identity order: %s", sig, res.Dest, base.Dest)}
			}
		}
		if len(orders) >= 2 {
			x.NonTrivial = true
			x.Probes["orders_compared"] += int64(len(orders))
		}
	}
	return nil
}

func diffIssueMaps(a, b map[string][]string) string {
	keys := map[string]bool{}
	for k := range a {
		keys[k] = true
	}
	for k := range b {
		keys[k] = true
	}
	var ks []string
	for k := range keys {
		ks = append(ks, k)
	}
	sort.Strings(ks)
	for _, k := range ks {
		if strings.Join(a[k], ";") != strings.Join(b[k], ";") {
			return fmt.Sprintf("at %q: %v vs %v", k, a[k], b[k])
		}
	}
	return ""
}

// ---------------------------------------------------------------------------
// C13 – Parse and Validate agree on fully populated values

func init() {
	Register(&Scenario{ID: "C13", Gen: genC13, Run: runC13, Valid: validC13,
		Rule: "a world is a schema without Preprocess and 1-3 fully populated values of its destination type (no zero leaf, no empty slice, no nil pointer); each is validated in place and parsed from the map it " +
			"would be decoded from into a fresh destination, under independently drawn visit orders and pool states; issues (path, code, type, message) and resulting values must agree; " +
			"non-trivial iff the value has >=2 leaves and at least one issue or one catch/default node; distinct by hash of (schema, values, decision vectors)"})
}

// validC13: the property speaks about fully populated values only.
func validC13(w *World) bool {
	if len(w.Schemas) == 0 {
		return false
	}
	for _, t := range w.Tasks {
		for _, op := range t {
			if op.Kind == "validate" && !fullyPopulated(w.Schemas[0], op.Input) {
				return false
			}
		}
	}
	return true
}

func fullyPopulated(n *Node, v Val) bool {
	switch n.Kind {
	case "struct":
		if v.K != "m" {
			return false
		}
		for _, f := range n.Fields {
			fv, ok := v.Get(f.Key)
			if !ok || !fullyPopulated(f.N, fv) {
				return false
			}
		}
		return true
	case "slice":
		if v.K != "l" || len(v.L) == 0 {
			return false
		}
		for _, e := range v.L {
			if !fullyPopulated(n.Elem, e) {
				return false
			}
		}
		return true
	case "ptr", "pre":
		return !v.IsNil() && fullyPopulated(n.Elem, v)
	case "custom":
		return !v.IsNil()
	}
	return !v.IsNil() && !validateAbsent(n, MIn{V: v}) && !(v.K == "s" && isBlank(v.S))
}

func genC13(r *Rng, tier string) *World {
	w := &World{Prop: "C13", Cfg: DrawDecCfg(r)}
	c := DrawGenCfg(r, "validate")
	c.without("pre")
	c.PPT = Pick(r, []float64{0, 0.2, 0.4})
	c.PPTErr = Pick(r, []float64{0, 0.3})
	c.PValid = Pick(r, []float64{0.4, 0.7, 0.9})
	c.Widths = true
	c.RawStrings = true
	c.BigInts = true
	c.InfFloats = true
	root := GenNode(r, &c, 0, true)
	// both modes name a field by its `zog` tag (no source tag is involved for a plain map); other tags are dropped here
	root.Walk(func(n *Node) {
		for _, f := range n.Fields {
			var keep []KV
			for _, t := range f.Tags {
				if t.K == "zog" {
					keep = append(keep, t)
				}
			}
			f.Tags = keep
		}
	})
	// "leave equal values": transforms that really transform (deterministically) make the value depend on whether they ran
	root.Walk(func(n *Node) {
		for i := range n.PTs {
			if n.IsPrim() && r.P(0.6) {
				n.PTs[i].Mutate = "leaf"
			}
		}
	})
	w.Schemas = []*Node{root}
	var ops []Op
	for i := 0; i < 1+r.Intn(3); i++ {
		ops = append(ops, Op{Kind: "validate", Schema: 0, Input: GenValidateInput(r, &c, root, true), Rev: r.P(0.3)})
	}
	w.Tasks = [][]Op{ops}
	return w
}

// aliasEqualPointers makes pointers of one type that hold equal values share one pointee (a value in which the same
// object is reachable twice is as valid a Go value as any).
func aliasEqualPointers(root reflect.Value) int {
	var ptrs []reflect.Value
	var walk func(v reflect.Value)
	walk = func(v reflect.Value) {
		switch v.Kind() {
		case reflect.Ptr:
			if !v.IsNil() {
				if v.CanSet() {
					ptrs = append(ptrs, v)
				}
				walk(v.Elem())
			}
		case reflect.Struct:
			if v.Type() == timeType {
				return
			}
			for i := 0; i < v.NumField(); i++ {
				walk(v.Field(i))
			}
		case reflect.Slice:
			for i := 0; i < v.Len(); i++ {
				walk(v.Index(i))
			}
		}
	}
	walk(root)
	n := 0
	for i := 1; i < len(ptrs); i++ {
		for j := 0; j < i; j++ {
			if ptrs[i].Type() == ptrs[j].Type() && ptrs[i].Pointer() != ptrs[j].Pointer() &&
				reflect.DeepEqual(ptrs[i].Elem().Interface(), ptrs[j].Elem().Interface()) {
				ptrs[i].Set(ptrs[j])
				n++
				break
			}
		}
	}
	return n
}

func runC13(x *X) *Violation {
	w := x.W
	x.BuildSchemas()
	n := x.Built[0].N
	if !hasStatefulMods(n) {
		// nothing rewrites values in place: the same object may then be reachable through several pointers
		x.destHook = func(dest reflect.Value, data any) {
			if data == nil {
				x.Probes["aliased_pointers"] += int64(aliasEqualPointers(dest.Elem()))
			}
		}
		defer func() { x.destHook = nil }()
	}
	x.FreshRun("v/")
	for i := range w.Tasks[0] {
		op := w.Tasks[0][i]
		if op.Kind != "validate" {
			continue
		}
		x.SetPhase(fmt.Sprintf("v%d/", i))
		rv := x.Exec(fmt.Sprintf("0:%dv", i), &op)
		po := op
		po.Kind = "parse"
		// "only if no issue exists at that moment": whether a (value-changing) PostTransform runs depends on the visit
		// order by definition, so the parse replays the validate's struct visit orders; pools stay independent
		ps, vs := StructSiteFor("parse"), StructSiteFor("validate")
		if ps != "" && vs != "" {
			from := fmt.Sprintf("v%d/visit:%s", i, vs)
			if l, ok := x.Dec.Rec[from]; ok {
				x.Dec.Forced[fmt.Sprintf("p%d/visit:%s", i, ps)] = append([]int(nil), l...)
			} else {
				x.Dec.Forced[fmt.Sprintf("p%d/visit:%s", i, ps)] = nil
			}
		}
		x.SetPhase(fmt.Sprintf("p%d/", i))
		rp := x.Exec(fmt.Sprintf("0:%dp", i), &po)
		if rv.Panic != rp.Panic {
			return &Violation{Class: "C13/panic-differs", Detail: fmt.Sprintf("validate %q vs parse %q", rv.Panic, rp.Panic)}
		}
		if rv.Panic != "" {
			continue
		}
		a, b := issuesByPathNoParams(rv), issuesByPathNoParams(rp)
		if d := diffIssueMaps(a, b); d != "" {
			return &Violation{Class: "C13/issues-differ " + c13kind(a, b), Detail: "validate vs parse: " + d}
		}
		if rv.Nil != rp.Nil {
			return &Violation{Class: "C13/nil-ness-differs", Detail: fmt.Sprintf("validate nil=%v parse nil=%v", rv.Nil, rp.Nil)}
		}
		if rv.Dest != rp.Dest {
			return &Violation{Class: "C13/values-differ", Detail: fmt.Sprintf("validate left %s, parse produced %s", rv.Dest, rp.Dest)}
		}
		leaves := 0
		special := false
		n.Walk(func(m *Node) {
			if m.IsPrim() {
				leaves++
			}
			if m.Catch != nil || m.Def != nil {
				special = true
			}
		})
		if leaves >= 2 && (len(rv.Issues) > 0 || special) {
			x.NonTrivial = true
		}
	}
	return nil
}

func issuesByPathNoParams(r *Result) map[string][]string {
	m := map[string][]string{}
	for _, i := range r.Issues {
		m[i.Path] = append(m[i.Path], fmt.Sprintf("%s|%s|%s", i.Code, i.Type, i.Msg))
	}
	for k := range m {
		sort.Strings(m[k])
	}
	return m
}

func c13kind(a, b map[string][]string) string {
	na, nb := 0, 0
	for _, l := range a {
		na += len(l)
	}
	for _, l := range b {
		nb += len(l)
	}
	switch {
	case na > nb:
		return "validate-reports-more"
	case nb > na:
		return "parse-reports-more"
	}
	return "same-count"
}
