package harness

import (
	"fmt"
	"regexp"
	"strconv"
	"strings"
)

// ---------------------------------------------------------------------------
// C14 – all input front ends are equivalent views of the same record

func init() {
	Register(&Scenario{ID: "C14", Gen: genC14, Run: runC14,
		Rule: "one logical record (flat or nested; string/int/float/bool/time leaves, lists of scalars; valid, test-failing, uncoercible and missing leaves) is rendered as Go map, JSON via zjson, JSON/form/query via zhttp and environment via zenv " +
			"using for each source the key its tag rules name, delivered through readers with benign behaviours (chunking, one-byte reads, EOF-with-data, stalls) and permuted key order, with the environment set/unset around the call; " +
			"destinations and issue multisets (logical field, code, type) must be equal across front ends; non-trivial iff >=3 front ends were compared on a record with >=2 leaves; distinct by hash of (schema, record, I/O scripts, decision vectors)"})
}

var floatLiterals = []string{"16777217.0000000001", "16777216.9999999999", "1.00000005960464478", "1.00000017881393433", "0.1000000000000000055511151231257827",
	"33554434.00000000001", "8388608.50000000001", "7.006492321624085e-46", "1.401298464324817e-45", "3.4028235677973366e38", "0.30000000000000004", "9007199254740993", "1e23", "2.5000000000000001"}

func genC14(r *Rng, tier string) *World {
	w := &World{Prop: "C14", Cfg: DrawDecCfg(r), Params: map[string]int{}}
	c := DrawGenCfg(r, "parse")
	c.without("pre", "custom", "ptr")
	c.PPT = 0
	c.PCatch = Pick(r, []float64{0, 0.2})
	c.PTags = Pick(r, []float64{0, 0.6, 1})
	c.NoCoerceVariants = true
	c.PAbsent = 0
	c.PBadType = 0
	c.Widths = r.P(0.4)
	fam := Pick(r, []string{"flat", "flat", "nested-json", "nested-flat", "ptr-root", "gostruct"})
	w.Family = fam
	ptrRoot := fam == "ptr-root"
	if ptrRoot {
		fam = "flat" // a top-level optional struct: Ptr(Struct{...}) over a flat record
	}
	goStruct := fam == "gostruct"
	if goStruct {
		// the record is also handed over as a Go struct value; its fields are found by name, so the schema
		// keys are written the way Go spells exported fields
		fam = Pick(r, []string{"flat", "nested-json"})
		w.Family = fam
		c.PTags = 0
	}
	var root *Node
	switch fam {
	case "flat":
		c.MaxDepth = 2 // slices of scalars live at depth 1
		c.MaxFields = 2 + r.Intn(4)
		root = genKind(r, &c, "struct", 0)
		var fs []*Field
		for _, f := range root.Fields {
			if f.N.IsPrim() || (f.N.Kind == "slice" && f.N.Elem.IsPrim()) {
				fs = append(fs, f)
			}
		}
		if len(fs) == 0 {
			fs = []*Field{{Key: "a", N: &Node{Kind: "string", Req: true}}}
		}
		root.Fields = fs
	default:
		c.MaxDepth = 2 + r.Intn(2)
		c.without("slice")
		root = genKind(r, &c, "struct", 0)
		hasNested := false
		for _, f := range root.Fields {
			if f.N.Kind == "struct" {
				hasNested = true
			}
		}
		if !hasNested {
			root.Fields = append(root.Fields, &Field{Key: "sub", N: genKind(r, &c, "struct", 1)})
		}
		if fam == "nested-json" && r.P(0.3) {
			ek := Pick(r, []string{"int", "float", "bool", "string"})
			root.Fields = append(root.Fields, &Field{Key: "grid", N: &Node{Kind: "slice", Elem: &Node{Kind: "slice", Elem: &Node{Kind: ek, Req: r.P(0.5)}}}})
		}
		{
			// tags below the root record are the open finding F-TAGS (C10)
			for _, f := range root.Fields {
				f.N.Walk(func(n *Node) {
					for _, ff := range n.Fields {
						ff.Tags = nil
					}
				})
			}
		}
	}
	root.Tests, root.PTs = nil, nil
	// an empty tag value names the field "" - legal, but then paths cannot be mapped back to fields (C10 covers it)
	root.Walk(func(n *Node) {
		for _, f := range n.Fields {
			for i := range f.Tags {
				if f.Tags[i].V.S == "" {
					f.Tags[i].V = VS(f.Tags[i].K[:1] + "_" + f.Key)
				}
			}
		}
	})
	if goStruct {
		root.Walk(func(n *Node) {
			for _, f := range n.Fields {
				f.Key, f.Tags = GoName(f.Key), nil
			}
		})
	} else if fam == "flat" && r.P(0.1) {
		// a source tag that is present but empty names the member "" of that source (`{"": v}`, `=v`); it is not "no tag":
		// the field must not fall through to its zog tag or schema key there (the root record has no tests of its own,
		// so an issue reported at the empty path is this field's)
		f := root.Fields[r.Intn(len(root.Fields))]
		var keep []KV
		for _, t := range f.Tags {
			if t.K == "zog" || t.K == "env" {
				keep = append(keep, t)
			}
		}
		f.Tags = append(keep, KV{"json", VS("")}, KV{"form", VS("")}, KV{"query", VS("")})
		if _, ok := f.Tag("zog"); !ok && r.P(0.5) {
			f.Tags = append(f.Tags, KV{"zog", VS("z_" + f.Key)})
		}
		w.Params["empty_source_tag"] = 1
	}
	if ptrRoot {
		root = &Node{Kind: "ptr", Req: r.P(0.3), Elem: root}
	}
	w.Schemas = []*Node{root}
	// the logical record
	scalarLists := false
	bigDone := false
	var rec func(n *Node) (Val, bool)
	rec = func(n *Node) (Val, bool) {
		switch n.Kind {
		case "struct":
			m := VM()
			for _, f := range n.Fields {
				if v, ok := rec(f.N); ok {
					m.M = append(m.M, KV{f.Key, v})
				}
			}
			for i := len(m.M) - 1; i > 0; i-- {
				j := r.Intn(i + 1)
				m.M[i], m.M[j] = m.M[j], m.M[i]
			}
			return m, true
		case "slice":
			if r.P(0.2) {
				return Val{}, false
			}
			if n.Elem.IsPrim() && n.Elem.Kind != "time" && r.P(0.08) {
				// one scalar where a list is expected (a parameter sent once, possibly blank): boxed - or absent - everywhere alike
				if r.P(0.4) {
					return VS(Pick(r, []string{"", " "})), true
				}
				sv := genTyped(r, n.Elem.Kind)
				if sv.K == "s" && strings.TrimSpace(sv.S) == "" {
					sv = VS("x")
				}
				return sv, true
			}
			if n.Elem.Kind == "slice" {
				// a list of lists of scalars (JSON documents and Go values only)
				l := VL()
				for i := 0; i < 1+r.Intn(2); i++ {
					in := VL()
					for j := 0; j < 1+r.Intn(3); j++ {
						in.L = append(in.L, genTyped(r, n.Elem.Elem.Kind))
					}
					l.L = append(l.L, in)
				}
				return l, true
			}
			l := VL()
			for i := 0; i < 1+r.Intn(3); i++ {
				v := genTyped(r, n.Elem.Kind)
				if v.K == "s" && (v.S != strings.TrimSpace(v.S) || v.S == "") {
					v.S = "x" + strings.TrimSpace(v.S)
				}
				if v.K == "s" && len(l.L) > 0 && r.P(0.15) {
					v.S = Pick(r, []string{"", "  "}) // a blank element of a list with >= 2 elements is an absent element everywhere
				}
				if (v.K == "i" || v.K == "f" || v.K == "b") && r.P(0.15) {
					v = map[string]Val{"i": VI(0), "f": VF(0), "b": VB(false)}[v.K] // present-but-falsy elements
				}
				l.L = append(l.L, v)
				if r.P(0.25) {
					l.L = append(l.L, v) // a repeated parameter with identical values is still a list
				}
			}
			return l, true
		default:
			x := r.Float()
			if fam == "flat" && !goStruct && r.P(0.04) {
				// two values for a field that holds one (a parameter sent twice): every front end hands over the same list
				scalarLists = true
				return VL(genTyped(r, n.Kind), genTyped(r, n.Kind)), true
			}
			if n.Kind == "string" && !bigDone && r.P(0.001) {
				// a record of more than a mebibyte (one long text): size is no reason for front ends to disagree
				bigDone = true
				return VS(strings.Repeat("k", 1<<20+50000+r.Intn(1000))), true
			}
			if n.Kind == "float" && !goStruct && r.P(0.08) {
				// a number written with more digits than a float64 keeps (half-way cases of the narrower type among them):
				// every front end reads the text as a float64 first
				lit := Pick(r, floatLiterals)
				f, _ := strconv.ParseFloat(lit, 64)
				return Val{K: "f", F: f, S: "lit:" + lit}, true
			}
			switch {
			case x < 0.2:
				return Val{}, false
			case x < 0.27 && n.Kind != "string":
				return VS("abc"), true
			case x < 0.32:
				return VS(""), true
			case x < 0.7:
				sv := genSatisfying(r, n)
				if sv.K == "s" && sv.S != strings.TrimSpace(sv.S) {
					sv.S = strings.TrimSpace(sv.S) // padded strings are not part of the common record (zenv trims by documented design)
				}
				return sv, true
			}
			v := genTyped(r, n.Kind)
			if v.K == "s" && v.S != strings.TrimSpace(v.S) {
				v.S = strings.TrimSpace(v.S)
			}
			return v, true
		}
	}
	var in Val
	if ptrRoot {
		in, _ = rec(root.Elem)
		if len(in.M) == 0 {
			// `{}` for a top-level optional struct means "absent" (pinned upstream by TestTopLevelOptionalStruct),
			// an empty Go map does not: keep at least one key
			f := root.Elem.Fields[0]
			if f.N.IsPrim() {
				in.M = append(in.M, KV{f.Key, genTyped(r, f.N.Kind)})
			} else {
				in.M = append(in.M, KV{f.Key, VL(genTyped(r, f.N.Elem.Kind))})
			}
		}
	} else {
		in, _ = rec(root)
	}
	// list parameters spelled `key[]`: always a list, even with one (possibly blank) value
	if !goStruct {
		rr := root
		if ptrRoot {
			rr = root.Elem
		}
		for _, f := range rr.Fields {
			if f.N.Kind != "slice" || !f.N.Elem.IsPrim() || !r.P(0.3) {
				continue
			}
			if e, ok := f.Tag("json"); ok && e == "" {
				continue
			}
			isList := false
			for i := range in.M {
				if in.M[i].K == f.Key && in.M[i].V.K == "l" {
					isList = true
				}
			}
			if !isList {
				continue // (a scalar sent under `key[]` is a one-element list there and a scalar elsewhere: not one record)
			}
			var keep []KV
			for _, t := range f.Tags {
				if t.K != "form" && t.K != "query" {
					keep = append(keep, t)
				}
			}
			f.Tags = append(keep, KV{"form", VS(f.Key + "[]")}, KV{"query", VS(f.Key + "[]")})
			for i := range in.M {
				if in.M[i].K == f.Key && in.M[i].V.K == "l" && len(in.M[i].V.L) == 1 && in.M[i].V.L[0].K == "s" && r.P(0.4) {
					in.M[i].V = VL(VS(Pick(r, []string{"", " "})))
				}
			}
		}
	}
	// padded strings are not part of the common record (zenv trims by documented design)
	var trim func(v Val) Val
	trim = func(v Val) Val {
		switch v.K {
		case "s":
			if t := strings.TrimSpace(v.S); t != "" {
				v.S = t // (a whitespace-only string stays what it is: blank for every front end)
			}
		case "l":
			l := VL()
			for _, e := range v.L {
				l.L = append(l.L, trim(e))
			}
			return l
		case "m":
			m := VM()
			for _, kv := range v.M {
				m.M = append(m.M, KV{kv.K, trim(kv.V)})
			}
			return m
		}
		return v
	}
	in = trim(in)
	hasSlice := false
	root.Walk(func(n *Node) {
		if n.Kind == "slice" {
			hasSlice = true
		}
	})
	fronts := []string{"map", "zjson", "zhttp_json"}
	if fam != "nested-json" {
		fronts = append(fronts, "zhttp_form", "zhttp_query")
		if !hasSlice && !scalarLists {
			fronts = append(fronts, "zenv")
		}
	}
	if goStruct {
		fronts = append(fronts, "gostruct")
	}
	allStr := in.K == "m" && len(in.M) > 0
	for _, kv := range in.M {
		if kv.V.K != "s" {
			allStr = false
		}
	}
	if allStr && fam == "flat" {
		fronts = append(fronts, "mapstr")
	}
	var ops []Op
	for _, f := range fronts {
		op := Op{Kind: "parse", Schema: 0, Input: in, Arg: f}
		io := &IOSpec{Chunk: Pick(r, []int{0, 0, 1, 3, 8}), EOFData: r.P(0.3)}
		for i := 0; i < r.Intn(3); i++ {
			io.Steps = append(io.Steps, RdStep{K: Pick(r, []string{"stall", "chunk"}), N: 1 + r.Intn(4)})
		}
		if bigDone && io.Chunk > 0 {
			io.Chunk = Pick(r, []int{4096, 65536, 1000003}) // a mebibyte is not delivered three bytes at a time
		}
		switch f {
		case "map":
			op.Front = "map"
		case "zjson":
			op.Front, op.IO = "zjson", io
		case "zhttp_json":
			op.Front = "zhttp"
			io.Method, io.CT, io.BodyKind = "POST", "application/json", "json"
			op.IO = io
		case "zhttp_form":
			op.Front = "zhttp"
			io.Method, io.CT, io.BodyKind = "POST", "application/x-www-form-urlencoded", "form"
			op.IO = io
		case "zhttp_query":
			op.Front = "zhttp"
			io.Method, io.BodyKind = "GET", "none"
			q := in
			io.QueryIn = &q
			op.IO = io
		case "zenv":
			op.Front = "zenv"
			if r.P(0.3) {
				// one provider for the life of the process: an earlier call read another environment through it
				w.Params["env_shared"] = 1
				if in2, ok := rec(root); ok && in2.K == "m" && !ptrRoot {
					ops = append(ops, Op{Kind: "parse", Schema: 0, Front: "zenv", Input: in2, Ref: 1})
				}
			}
		case "gostruct":
			op.Front = "gostruct"
		case "mapstr":
			op.Front = "mapstr"
		}
		op.Arg = ""
		ops = append(ops, op)
	}
	w.Tasks = [][]Op{ops}
	return w
}

// logicalPath maps the source-specific keys of a path back to schema keys.
func logicalPath(n *Node, path, source string) string {
	if n == nil {
		return path
	}
	if path == "" {
		for n.Kind == "ptr" || n.Kind == "pre" {
			n = n.Elem
		}
		if n.Kind == "struct" {
			for _, f := range n.Fields {
				if _, tagged := f.Tag(source); tagged && SourceKey(f, source) == "" {
					return f.Key // the member named "" of this source
				}
			}
		}
		return path
	}
	switch n.Kind {
	case "struct":
		for _, f := range n.Fields {
			k := SourceKey(f, source)
			if path == k {
				return f.Key
			}
			if strings.HasPrefix(path, k+".") {
				return f.Key + "." + logicalPath(f.N, path[len(k)+1:], source)
			}
			if strings.HasPrefix(path, k+"[") {
				return f.Key + logicalPath(f.N, path[len(k):], source)
			}
		}
	case "slice":
		if strings.HasPrefix(path, "[") {
			if i := strings.Index(path, "]"); i >= 0 {
				rest := path[i+1:]
				rest = strings.TrimPrefix(rest, ".")
				sub := logicalPath(n.Elem, rest, source)
				if sub == "" {
					return path[:i+1]
				}
				if strings.HasPrefix(sub, "[") {
					return path[:i+1] + sub
				}
				return path[:i+1] + "." + sub
			}
		}
	case "ptr", "pre":
		return logicalPath(n.Elem, path, source)
	}
	return path
}

func runC14(x *X) *Violation {
	w := x.W
	x.BuildSchemas()
	root := x.Built[0].N
	x.FreshRun("r/")
	type out struct {
		front  string
		issues []string
		dest   string
	}
	var outs []out
	leaves := 0
	root.Walk(func(n *Node) {
		if n.IsPrim() {
			leaves++
		}
	})
	for i := range w.Tasks[0] {
		op := &w.Tasks[0][i]
		if op.Kind != "parse" {
			continue
		}
		name := op.Front
		if op.Front == "zhttp" && op.IO != nil {
			name = "zhttp_" + op.IO.dispatch()
		}
		x.SetPhase("f" + strconv.Itoa(i) + "/")
		res := x.Exec("0:"+strconv.Itoa(i), op)
		if res.Panic != "" {
			return &Violation{Class: "C14/panic front=" + name, Detail: res.Panic}
		}
		if op.Ref == 1 {
			continue // the earlier call through the long-lived environment provider: another record, not compared
		}
		src := frontSource(op)
		var is []string
		for _, a := range res.Issues {
			is = append(is, logicalPath(root, a.Path, src)+"|"+a.Code+"|"+a.Type)
		}
		sortStrings(is)
		outs = append(outs, out{name, is, res.Dest})
	}
	if len(outs) < 2 {
		return nil
	}
	base := outs[0]
	for _, o := range outs[1:] {
		flat := o.front == "zhttp_form" || o.front == "zhttp_query" || o.front == "zenv"
		fam := ""
		if w.Family == "nested-flat" && flat {
			fam = "nested-flat "
		}
		if strings.Join(o.issues, ";") != strings.Join(base.issues, ";") {
			return &Violation{Class: fmt.Sprintf("C14/%sissues-differ front=%s vs=%s", fam, o.front, base.front),
				Detail: fmt.Sprintf("%s reports %v, %s reports %v", o.front, o.issues, base.front, base.issues)}
		}
		if o.dest != base.dest {
			return &Violation{Class: fmt.Sprintf("C14/%sdestination-differs front=%s vs=%s", fam, o.front, base.front),
				Detail: fmt.Sprintf("%s produced %s, %s produced %s", o.front, o.dest, base.front, base.dest)}
		}
	}
	if len(outs) >= 3 && leaves >= 2 {
		x.NonTrivial = true
	}
	x.Probes["fronts_compared"] += int64(len(outs))
	return nil
}

// ---------------------------------------------------------------------------
// C06 – no input data can make Parse panic

func init() {
	Register(&Scenario{ID: "C06", Gen: genC06, Run: runC06,
		Rule: "half 'faults': schema-shaped and hostile JSON documents, forms, queries and environments through zjson/zhttp/zenv with reader faults (error, truncation, EOF-with-data, stalls, one-byte reads, close error) at drawn offsets, " +
			"on pools recycled after histories that include calls aborted by injected callback panics; half 'values' (seeded generation, no simulated fault involved): Go values of any dynamic type - named map/slice types, maps with non-string keys, " +
			"structs with unexported/embedded fields, typed nils, pointer chains, NaN/Inf, arrays, channels, funcs - at every position of the input, plus schema keys longer than 32 bytes. Oracle: recover() and a step cap. " +
			"Non-trivial iff an exotic value or hostile document reached a nested node or a reader fault fired; distinct by hash of (schema, input, I/O script, decision vectors)"})
}

var hostileJSON = []string{
	`{}`, `[]`, `null`, `1`, `"s"`, `true`, ``, ` `, `{"a":null}`, `{"a":{}}`, `{"a":[]}`, `{"a":[[[[[[1]]]]]]}`, `{"a":{"a":{"a":{"a":{}}}}}`,
	`{"a":1e999}`, `{"a":-1e999}`, `{"a":1e308}`, `{"a":12345678901234567890}`, `{"a":"\ud800"}`, "{\"a\":\"\xff\xfe\"}", `{"a":1,"a":2}`, `{"":1}`,
	`{"name":[{"x":1},null,[]]}`, `{"name":{"0":1}}`, `{"a":"` + strings.Repeat("z", 300) + `"}`, `[{"a":1}]`, `{"a":[null,null]}`, `{"a":0.1e-400}`, `{"a":"\u0000"}`,
	`{"a":true,"b":false,"name":null,"age":"12","Tags":"x","id":[1,"2",null,{}],"items":{"items":{"items":1}}}`,
}

var hostileForm = []string{
	``, `a`, `=`, `&`, `a=1&a=2&a=3`, `a[]=1`, `[]=1`, `a[]`, `=x`, `a=%zz`, `%`, `a=1;b=2`, `a=%00`, `a=%ff%fe`, `name[]=&name[]=`, `a[][]=1`, `a.b=1`, `a[0]=1`,
	`age=1e999`, `age=NaN`, `age=Inf`, `age=-0`, `flag=on&flag=off`, `when=0000-00-00T00:00:00Z`, `items=` + strings.Repeat("x", 500), `Tags[]=a&Tags[]=b&Tags=c`,
}

var longKeys = []string{
	"a_lower_case_schema_key_that_is_longer_than_thirty_two_bytes",
	"An_upper_case_schema_key_that_is_longer_than_thirty_two_bytes",
	"exactly_thirty_two_bytes_long_key",
	"x123456789012345678901234567890123456789012345678901234567890",
}

func injectExotic(r *Rng, v Val, depth int) (Val, bool) {
	if depth > 3 || r.P(0.3) {
		return Val{K: "x", S: Pick(r, ExoticNames)}, depth > 0
	}
	switch v.K {
	case "m":
		if len(v.M) == 0 {
			return Val{K: "x", S: Pick(r, ExoticNames)}, depth > 0
		}
		c := v.Clone()
		i := r.Intn(len(c.M))
		nv, deep := injectExotic(r, c.M[i].V, depth+1)
		c.M[i].V = nv
		return c, deep
	case "l":
		if len(v.L) == 0 {
			return Val{K: "x", S: Pick(r, ExoticNames)}, depth > 0
		}
		c := v.Clone()
		i := r.Intn(len(c.L))
		nv, deep := injectExotic(r, c.L[i], depth+1)
		c.L[i] = nv
		return c, deep
	}
	return Val{K: "x", S: Pick(r, ExoticNames)}, depth > 0
}

// text a caller may well hold for a number, a boolean or a time: each is an ordinary string; the worst it can be is "not coercible"
var hostileText = []string{
	"e5", "E10", "e-3", "e+0", "1e", "1e+", "1e3", "1E3", "2.5e2", "50e-1", "12.0", "5.", ".5", ".", "+", "-", "+-1", "--1", "+5", "-.5e-", "0x", "0x1f", "1_0", "_",
	"١٢", "１", "1e400", "-1e400", "1e-400", "0e0", "00", "-0", "+0", "0.0", "9223372036854775808", "-9223372036854775809", "99999999999999999999999999",
	"Infinity", "-Infinity", "infinity", "nan", "NAN", "Inf", "+Inf", "t", "T", "F", "f", "on", "off", "ON", "yes", "no", "TRUE", "True", "tRuE", "1.0", "0.0", "01",
	"2024-01-01", "2024-01-01T00:00:00", "2024-01-01T24:00:00Z", "2024-02-30T00:00:00Z", "2024-01-01T00:00:00+25:00", "2024-01-01T00:00:00.Z", "T", "Z", "0000-00-00T00:00:00Z",
	"2024-01-01T00:00:00.123456789123Z", "-2024-01-01T00:00:00Z", "12024-01-01T00:00:00Z", "1e", "e", "E", "1e1e1", "1..2", "1,5", "1 000", "\u0031", "%31", "0b1", "0o7", "1e18", "1e19", "12e-1",
}

// injectHostileText replaces one leaf of the record by such a text.
func injectHostileText(r *Rng, v Val) Val {
	switch v.K {
	case "m":
		if len(v.M) > 0 {
			c := v.Clone()
			i := r.Intn(len(c.M))
			c.M[i].V = injectHostileText(r, c.M[i].V)
			return c
		}
	case "l":
		if len(v.L) > 0 {
			c := v.Clone()
			i := r.Intn(len(c.L))
			c.L[i] = injectHostileText(r, c.L[i])
			return c
		}
	}
	return VS(Pick(r, hostileText))
}

func genC06(r *Rng, tier string) *World {
	w := &World{Prop: "C06", Cfg: DrawDecCfg(r), Params: map[string]int{}}
	c := DrawGenCfg(r, "parse")
	c.PTags = Pick(r, []float64{0, 0.5})
	c.EmptyTags = true
	c.PPT = Pick(r, []float64{0, 0.2})
	root := GenNode(r, &c, 0, true)
	if r.P(0.05) {
		// long paths (the pooled path builder grows past its first steps), then more calls on the same pools
		c.MaxElems = 2
		root = DeepChain(r, &c, DeepSegments(r))
	}
	if r.P(0.15) && root.Kind == "struct" {
		// valid configuration the statement names explicitly: long field names
		root.Fields = append(root.Fields, &Field{Key: Pick(r, longKeys), N: &Node{Kind: "string", Req: r.P(0.5)}})
		w.Params["long_key"] = 1
	}
	w.Schemas = []*Node{root}
	var ops []Op
	// a short history so that pools are recycled, some of it aborted
	for i := 0; i < r.Intn(3); i++ {
		v, missing := GenParseInput(r, &c, root)
		if missing {
			v = VNil()
		}
		op := Op{Kind: "parse", Schema: 0, Input: v, Collect: Pick(r, []string{"", "CollectMap"})}
		if r.P(0.3) {
			op.PanicAt = 1 + r.Intn(3)
		}
		ops = append(ops, op)
	}
	v, missing := GenParseInput(r, &c, root)
	if missing {
		v = VNil()
	}
	op := Op{Kind: "parse", Schema: 0, Input: v}
	if r.P(0.5) {
		w.Family = "values"
		nv, deep := injectExotic(r, v, 0)
		if r.P(0.3) {
			// no exotic Go value this time: an ordinary string that merely looks like a number, a boolean or a time
			nv, deep = injectHostileText(r, v), true
			if r.P(0.5) {
				nv = injectHostileText(r, nv)
			}
			w.Params["hostile_text"] = 1
		}
		op.Input = nv
		// %v of these prints an address: what the library then computes (a string holding that address) is
		// allocation-dependent by nature, so such worlds are replayed by verdict only, not by event digest
		for _, name := range ExoticNames {
			if strings.Contains(nv.String(), "x:"+name) && (ExoticVolatile(name) || name == "reflect_value" || name == "ptr_nil_iface") {
				w.Params["volatile"] = 1
			}
		}
		op.Arg = "raw"
		if deep {
			w.Params["deep"] = 1
		}
	} else {
		w.Family = "faults"
		io := &IOSpec{Chunk: Pick(r, []int{0, 1, 2, 7}), EOFData: r.P(0.3), CloseErr: r.P(0.2)}
		for i := 0; i < r.Intn(3); i++ {
			io.Steps = append(io.Steps, RdStep{K: Pick(r, []string{"stall", "chunk"}), N: 1 + r.Intn(4)})
		}
		if r.P(0.6) {
			io.TruncAt = 1 + r.Intn(60)
			io.Fault = Pick(r, []string{"eof", "err", "err_with_data"})
		}
		hostile := r.P(0.5)
		switch r.Intn(5) {
		case 0:
			op.Front = "zjson"
			if hostile || v.K != "m" {
				io.BodyKind, io.Body = "raw", Pick(r, hostileJSON)
			}
		case 1:
			op.Front = "zhttp"
			io.Method, io.CT, io.BodyKind = Pick(r, []string{"POST", "PUT", "DELETE"}), "application/json", "json"
			if hostile || v.K != "m" {
				io.BodyKind, io.Body = "raw", Pick(r, hostileJSON)
			}
		case 2:
			op.Front = "zhttp"
			io.Method, io.CT, io.BodyKind = "POST", "application/x-www-form-urlencoded", "form"
			if hostile || v.K != "m" {
				io.BodyKind, io.Body = "raw", Pick(r, hostileForm)
			}
			if r.P(0.3) {
				io.Query = Pick(r, hostileForm)
			}
		case 3:
			op.Front = "zhttp"
			io.Method, io.BodyKind = Pick(r, []string{"GET", "HEAD"}), "none"
			io.Query = Pick(r, hostileForm)
			io.NilBody = r.P(0.5)
			io.NoBody = !io.NilBody && r.P(0.5)
		default:
			op.Front = "zenv"
			op.Input = envRecord(r, root)
			io = nil
		}
		op.IO = io
		if op.Front != "zenv" && op.Input.K != "m" {
			op.Input = VM()
		}
	}
	ops = append(ops, op)
	w.Tasks = [][]Op{ops}
	return w
}

// envRecord gives every scalar field some environment content, hostile or not.
func envRecord(r *Rng, root *Node) Val {
	m := VM()
	if root.Kind != "struct" {
		return m
	}
	for _, f := range root.Fields {
		if r.P(0.3) {
			continue
		}
		m.M = append(m.M, KV{f.Key, VS(Pick(r, []string{"1", "abc", " ", "", "true", "1e999", "NaN", "\xff\xfe", "2024-01-01T00:00:00Z", " 12 ", "a,b", "[1]", "{}", "-0",
			"\"", "'", "\"\"", "\"x", " \" ", "$", "${", "=", "\n", "a\nb", "#", "\\"}))})
	}
	return m
}

var digitsRx = regexp.MustCompile(`0x[0-9a-f]+|[0-9]+`)

func panicClass(p string) string {
	p = strings.SplitN(p, "\n", 2)[0]
	p = digitsRx.ReplaceAllString(p, "N")
	if len(p) > 90 {
		p = p[:90]
	}
	return p
}

func runC06(x *X) *Violation {
	w := x.W
	x.BuildSchemas()
	x.FreshRun("r/")
	x.OpaqueResults = w.Family == "values"
	for i := range w.Tasks[0] {
		op := &w.Tasks[0][i]
		if op.Kind != "parse" {
			continue
		}
		tag := "0:" + strconv.Itoa(i)
		fired0 := x.Faults["rd_err"] + x.Faults["rd_trunc"] + x.Faults["rd_stall"] + x.Faults["rd_eof_with_data"]
		res := x.Exec(tag, op)
		fired := x.Faults["rd_err"]+x.Faults["rd_trunc"]+x.Faults["rd_stall"]+x.Faults["rd_eof_with_data"] > fired0
		if res.Panic == "injected" {
			x.Probes["abort_then_reuse"]++
			continue
		}
		if res.Panic != "" {
			front := op.Front
			if front == "" {
				front = "map"
			}
			return &Violation{Class: fmt.Sprintf("C06/panic front=%s: %s", front, panicClass(res.Panic)),
				Detail: fmt.Sprintf("input %s: %s", op.Input.String(), res.Panic)}
		}
		if res.Steps > 2_000_000 {
			return &Violation{Class: "C06/step-cap-exceeded", Detail: fmt.Sprintf("%d steps", res.Steps)}
		}
		if op.Collect != "" {
			x.Collect(tag, op.Collect, res)
		}
		if i == len(w.Tasks[0])-1 {
			if w.Family == "values" {
				x.Probes["exotic_value_calls"]++
				if w.P("deep") == 1 {
					x.NonTrivial = true
				}
			} else {
				x.Probes["front_end_calls"]++
				if fired || (op.IO != nil && op.IO.BodyKind == "raw") {
					x.NonTrivial = true
				}
			}
			if w.P("long_key") == 1 {
				x.Probes["long_key"]++
			}
			if w.P("hostile_text") == 1 {
				x.Probes["hostile_text"]++
			}
		}
	}
	return nil
}
