package harness

import (
	"errors"
	"io"
	"net/http"
	"net/url"
	"os"
	"reflect"
	"strconv"
	"strings"

	"github.com/Oudwins/zog/internals"
	"github.com/Oudwins/zog/parsers/zjson"
	"github.com/Oudwins/zog/zenv"
	"github.com/Oudwins/zog/zhttp"
	"github.com/Oudwins/zog/zz_verif/simrt"
)

// ---------------------------------------------------------------------------
// S3: fault-scripted reader

type RdStep struct {
	K string `json:"k"`           // chunk | stall | eofdata
	N int    `json:"n,omitempty"` // bytes for chunk / eofdata
}

type IOSpec struct {
	Method   string   `json:"method,omitempty"`
	CT       string   `json:"ct,omitempty"`        // Content-Type header ("" = absent)
	Query    string   `json:"query,omitempty"`     // raw query string
	BodyKind string   `json:"body_kind,omitempty"` // json | form | raw | none
	Body     string   `json:"body,omitempty"`      // raw body (BodyKind raw) – otherwise rendered from the op input
	QueryIn  *Val     `json:"query_in,omitempty"`  // logical record rendered into the query string
	Steps    []RdStep `json:"steps,omitempty"`
	Chunk    int      `json:"chunk,omitempty"`    // default chunk size once the script is exhausted (0: as much as asked)
	TruncAt  int      `json:"trunc_at,omitempty"` // fault position + 1 (0: no fault)
	Fault    string   `json:"fault,omitempty"`    // eof | err | err_with_data
	CloseErr bool     `json:"close_err,omitempty"`
	EOFData  bool     `json:"eof_data,omitempty"` // deliver the final bytes together with io.EOF
	NilBody  bool     `json:"nil_body,omitempty"`
	NoBody   bool     `json:"no_body,omitempty"`  // http.NoBody: how net/http represents an empty body (Content-Length 0)
	GetBody  string   `json:"get_body,omitempty"` // the request also carries a GetBody function (client-built requests do): same | other | err
}

// getBodyFunc is what a client-side request carries for redirects: a way to get the body it *meant* to send again.
// A server-side reader of the request has no business calling it: what arrived is r.Body.
func getBodyFunc(kind string, full string, fired map[string]int64) func() (io.ReadCloser, error) {
	return func() (io.ReadCloser, error) {
		fired["get_body_called"]++
		switch kind {
		case "same":
			return io.NopCloser(strings.NewReader(full)), nil
		case "other":
			return io.NopCloser(strings.NewReader(`{"zz_other":[`)), nil
		}
		return nil, errIO
	}
}

var errIO = errors.New("injected read error")
var errClose = errors.New("injected close error")

type SimReader struct {
	data   []byte
	pos    int
	spec   *IOSpec
	step   int
	Reads  int
	Closed int
	fired  map[string]int64
	stalls int
}

func NewSimReader(data []byte, spec *IOSpec, fired map[string]int64) *SimReader {
	if spec == nil {
		spec = &IOSpec{}
	}
	return &SimReader{data: data, spec: spec, fired: fired}
}

func (r *SimReader) Read(p []byte) (int, error) {
	simrt.Yield("read")
	r.Reads++
	if len(p) == 0 {
		return 0, nil
	}
	limit := len(r.data)
	fault := r.spec.TruncAt > 0
	if fault && r.spec.TruncAt-1 <= limit {
		limit = r.spec.TruncAt - 1
	} else {
		fault = false
	}
	want := len(p)
	eofWithData := false
	if r.step < len(r.spec.Steps) {
		s := r.spec.Steps[r.step]
		r.step++
		switch s.K {
		case "stall":
			// io.Reader allows (0, nil); keep it bounded so callers that loop terminate
			if r.stalls < 3 {
				r.stalls++
				r.fired["rd_stall"]++
				return 0, nil
			}
		case "chunk":
			if s.N > 0 && s.N < want {
				want = s.N
			}
		}
	} else if r.spec.Chunk > 0 && r.spec.Chunk < want {
		want = r.spec.Chunk
	}
	remaining := limit - r.pos
	if remaining <= 0 {
		if fault {
			switch r.spec.Fault {
			case "err", "err_with_data":
				r.fired["rd_err"]++
				return 0, errIO
			default:
				r.fired["rd_trunc"]++
				return 0, io.EOF
			}
		}
		return 0, io.EOF
	}
	n := want
	if n > remaining {
		n = remaining
	}
	if n < len(p) && n < remaining {
		r.fired["rd_short"]++
	}
	copy(p, r.data[r.pos:r.pos+n])
	r.pos += n
	if r.pos == limit {
		if fault && r.spec.Fault == "err_with_data" {
			r.fired["rd_err"]++
			return n, errIO
		}
		if !fault && r.spec.EOFData {
			eofWithData = true
		}
	}
	if eofWithData {
		r.fired["rd_eof_with_data"]++
		return n, io.EOF
	}
	return n, nil
}

func (r *SimReader) Close() error {
	r.Closed++
	if r.spec.CloseErr {
		r.fired["rd_close_err"]++
		return errClose
	}
	return nil
}

// ---------------------------------------------------------------------------
// Rendering a logical record for each front end

// SourceKey is the documented key of a struct field for a source:
// source tag, else `zog` tag, else the schema key.
func SourceKey(f *Field, source string) string {
	if source != "" {
		if v, ok := f.Tag(source); ok {
			return v
		}
	}
	if v, ok := f.Tag("zog"); ok {
		return v
	}
	return f.Key
}

// RenameKeys maps a logical record (keyed by schema keys) to the keys the
// source uses, at every depth.
func RenameKeys(n *Node, v Val, source string) Val {
	switch n.Kind {
	case "struct":
		if v.K != "m" {
			return v
		}
		out := Val{K: "m"}
		for _, kv := range v.M {
			var f *Field
			for _, ff := range n.Fields {
				if ff.Key == kv.K {
					f = ff
				}
			}
			if f == nil {
				out.M = append(out.M, kv)
				continue
			}
			out.M = append(out.M, KV{SourceKey(f, source), RenameKeys(f.N, kv.V, source)})
		}
		return out
	case "slice":
		if v.K != "l" {
			return v
		}
		out := Val{K: "l"}
		for _, e := range v.L {
			out.L = append(out.L, RenameKeys(n.Elem, e, source))
		}
		return out
	case "ptr", "pre":
		return RenameKeys(n.Elem, v, source)
	}
	return v
}

func JSONOf(v Val) string {
	var sb strings.Builder
	jsonOf(&sb, v)
	return sb.String()
}

func jsonOf(sb *strings.Builder, v Val) {
	switch v.K {
	case "", "nil":
		sb.WriteString("null")
	case "s", "t":
		sb.WriteString(jsonQuote(v.S))
	case "i":
		sb.WriteString(strconv.FormatInt(v.I, 10))
	case "f":
		if strings.HasPrefix(v.S, "lit:") {
			sb.WriteString(v.S[4:]) // the number as the sender wrote it (more digits than a float64 keeps)
			break
		}
		sb.WriteString(strconv.FormatFloat(v.F, 'g', -1, 64))
	case "b":
		sb.WriteString(strconv.FormatBool(v.B))
	case "l":
		sb.WriteString("[")
		for i := range v.L {
			if i > 0 {
				sb.WriteString(",")
			}
			jsonOf(sb, v.L[i])
		}
		sb.WriteString("]")
	case "m":
		sb.WriteString("{")
		for i := range v.M {
			if i > 0 {
				sb.WriteString(",")
			}
			sb.WriteString(jsonQuote(v.M[i].K))
			sb.WriteString(":")
			jsonOf(sb, v.M[i].V)
		}
		sb.WriteString("}")
	default:
		sb.WriteString("null")
	}
}

func jsonQuote(s string) string {
	var sb strings.Builder
	sb.WriteByte('"')
	for _, r := range s {
		switch {
		case r == '"':
			sb.WriteString(`\"`)
		case r == '\\':
			sb.WriteString(`\\`)
		case r == '\n':
			sb.WriteString(`\n`)
		case r == '\t':
			sb.WriteString(`\t`)
		case r == '\r':
			sb.WriteString(`\r`)
		case r < 0x20:
			sb.WriteString(`\u00`)
			sb.WriteString(strconv.FormatInt(int64(r)>>4, 16))
			sb.WriteString(strconv.FormatInt(int64(r)&15, 16))
		default:
			sb.WriteRune(r)
		}
	}
	sb.WriteByte('"')
	return sb.String()
}

func scalarString(v Val) string {
	switch v.K {
	case "s", "t":
		return v.S
	case "i":
		return strconv.FormatInt(v.I, 10)
	case "f":
		if strings.HasPrefix(v.S, "lit:") {
			return v.S[4:]
		}
		return strconv.FormatFloat(v.F, 'g', -1, 64)
	case "b":
		return strconv.FormatBool(v.B)
	}
	return ""
}

// FlatPairs renders a (renamed) record for a flat source: nested records are
// resolved against the same source, lists become repeated keys.
func FlatPairs(v Val) [][2]string {
	var out [][2]string
	if v.K != "m" {
		return out
	}
	for _, kv := range v.M {
		name := strings.TrimPrefix(kv.K, "!") // "!name": a parameter sent under exactly this name (no field's key is renamed to it)
		switch kv.V.K {
		case "m":
			out = append(out, FlatPairs(kv.V)...)
		case "l":
			for _, e := range kv.V.L {
				out = append(out, [2]string{name, scalarString(e)})
			}
		case "", "nil":
			// absent
		default:
			out = append(out, [2]string{name, scalarString(kv.V)})
		}
	}
	return out
}

func FormEncode(pairs [][2]string) string {
	var parts []string
	for _, p := range pairs {
		parts = append(parts, url.QueryEscape(p[0])+"="+url.QueryEscape(p[1]))
	}
	return strings.Join(parts, "&")
}

// makeInput renders op.Input for the op's front end.
func (x *X) makeInput(op *Op, b *Built) (any, func()) {
	noop := func() {}
	raw := op.Arg == "raw"
	switch op.Front {
	case "", "map":
		if op.Arg == "given" {
			return x.given, noop
		}
		if raw {
			return op.Input.ToGo(), noop
		}
		return RenameKeys(b.N, op.Input, "").ToGo(), noop
	case "mapstr":
		// the same record as a typed map[string]string (string-valued records only)
		in := RenameKeys(b.N, op.Input, "")
		m := map[string]string{}
		for _, kv := range in.M {
			m[kv.K] = scalarString(kv.V)
		}
		return m, noop
	case "gostruct":
		// the same record held in Go structs (what Parse accepts besides maps): one exported field per present key
		in := op.Input
		if !raw {
			in = RenameKeys(b.N, op.Input, "")
		}
		x.Faults["struct_source"]++
		return GoStructOf(b.N, op.Input, in), noop
	case "zjson":
		if f, ok := x.given.(internals.DpFactory); ok && op.Arg == "given" {
			return f, noop // the very factory an earlier call was given
		}
		body := op.IOBody(b, "json")
		rd := NewSimReader([]byte(body), op.IO, x.Faults)
		return zjson.Decode(rd), noop
	case "zhttp":
		if f, ok := x.given.(internals.DpFactory); ok && op.Arg == "given" {
			return f, noop
		}
		if rq, ok := x.given.(*http.Request); ok && op.Arg == "given" {
			return zhttp.Request(rq), noop
		}
		return zhttp.Request(x.buildRequest(op, b)), noop
	case "zenv":
		in := op.Input
		if !raw {
			in = RenameKeys(b.N, op.Input, "env")
		}
		pairs := FlatPairs(in)
		var keys []string
		for _, p := range pairs {
			os.Setenv(p[0], p[1])
			keys = append(keys, p[0])
		}
		x.Faults["env_set"] += int64(len(keys))
		if x.W != nil && x.W.P("env_shared") == 1 {
			if x.envDP == nil {
				x.envDP = zenv.NewDataProvider()
			}
			x.Faults["env_provider_reused"]++
			return x.envDP, func() {
				for _, k := range keys {
					os.Unsetenv(k)
				}
			}
		}
		return zenv.NewDataProvider(), func() {
			for _, k := range keys {
				os.Unsetenv(k)
			}
		}
	}
	panic("harness: bad front end " + op.Front)
}

// buildRequest renders the operation as an *http.Request (method, content type, query string, scripted body reader).
func (x *X) buildRequest(op *Op, b *Built) *http.Request {
	io := op.IO
	if io == nil {
		io = &IOSpec{Method: "POST", CT: "application/json", BodyKind: "json"}
	}
	u := "http://example.test/p"
	q := io.Query
	if io.QueryIn != nil {
		q = FormEncode(FlatPairs(RenameKeys(b.N, *io.QueryIn, "query")))
	}
	if q != "" {
		u += "?" + q
	}
	var body *SimReader
	req, err := http.NewRequest(io.Method, "http://example.test/p", nil)
	if err != nil {
		panic("harness: bad request spec: " + err.Error())
	}
	pu, err := url.Parse(u)
	if err != nil {
		pu = &url.URL{Scheme: "http", Host: "example.test", Path: "/p", RawQuery: q}
	}
	req.URL = pu
	if io.NoBody {
		req.Body = http.NoBody
	} else if !io.NilBody && io.BodyKind != "none" {
		body = NewSimReader([]byte(op.IOBody(b, io.BodyKind)), io, x.Faults)
		req.Body = body
		if io.GetBody != "" {
			req.GetBody = getBodyFunc(io.GetBody, op.IOBody(b, io.BodyKind), x.Faults)
			x.Faults["get_body_offered"]++
		}
	}
	if io.CT != "" {
		req.Header.Set("Content-Type", io.CT)
	}
	return req
}

// IOBody renders the request/document body.
func (op *Op) IOBody(b *Built, kind string) string {
	if op.IO != nil && op.IO.BodyKind == "raw" {
		return op.IO.Body
	}
	switch kind {
	case "form":
		in := op.Input
		if op.Arg != "raw" {
			in = RenameKeys(b.N, op.Input, "form")
		}
		return FormEncode(FlatPairs(in))
	default:
		in := op.Input
		if op.Arg != "raw" {
			in = RenameKeys(b.N, op.Input, "json")
		}
		return JSONOf(in)
	}
}

// dispatchLenient is dispatch with the media type compared the way RFC 9110 compares it (case-insensitively,
// surrounding white space ignored).
func (io *IOSpec) dispatchLenient() string {
	if io.Method == "GET" || io.Method == "HEAD" {
		return "query"
	}
	mt := io.CT
	if i := strings.Index(mt, ";"); i >= 0 {
		mt = mt[:i]
	}
	switch strings.ToLower(strings.TrimSpace(mt)) {
	case "application/json":
		return "json"
	case "application/x-www-form-urlencoded":
		return "form"
	}
	return "query"
}

// sourceTag is the struct tag the documented dispatch of zhttp selects.
func (io *IOSpec) sourceTag() string {
	switch io.dispatch() {
	case "json":
		return "json"
	case "form":
		return "form"
	}
	return "query"
}

// dispatch implements the documented source selection of zhttp.Request:
// query parameters for GET and HEAD; otherwise by media type, ignoring
// parameters such as charset.
func (io *IOSpec) dispatch() string {
	if io.Method == "GET" || io.Method == "HEAD" {
		return "query"
	}
	mt := io.CT
	if i := strings.Index(mt, ";"); i >= 0 {
		mt = mt[:i]
	}
	switch mt {
	case "application/json":
		return "json"
	case "application/x-www-form-urlencoded":
		return "form"
	}
	return "query"
}

func exportedIdent(s string) bool {
	if s == "" || !(s[0] >= 'A' && s[0] <= 'Z') {
		return false
	}
	for i := 1; i < len(s); i++ {
		c := s[i]
		if !(c == '_' || (c >= '0' && c <= '9') || (c >= 'a' && c <= 'z') || (c >= 'A' && c <= 'Z')) {
			return false
		}
	}
	return true
}

// GoStructOf renders a logical record as Go struct values: every record below a struct node becomes a struct
// with one exported, concretely typed field per present key (a key that is no exported identifier cannot be
// carried and is dropped; a nil value is held in a field of type any). logical is keyed by schema keys, renamed
// by the keys the source uses.
func GoStructOf(n *Node, logical, renamed Val) any {
	switch n.Kind {
	case "struct":
		if renamed.K != "m" || logical.K != "m" || len(logical.M) != len(renamed.M) {
			return renamed.ToGo()
		}
		var sf []reflect.StructField
		var vals []any
		seen := map[string]int{}
		for i, kv := range renamed.M {
			if !exportedIdent(kv.K) {
				continue
			}
			var f *Field
			for _, ff := range n.Fields {
				if ff.Key == logical.M[i].K {
					f = ff
				}
			}
			var gv any
			if f != nil {
				gv = GoStructOf(f.N, logical.M[i].V, kv.V)
			} else {
				gv = kv.V.ToGo()
			}
			t := reflect.TypeOf((*any)(nil)).Elem()
			if gv != nil {
				t = reflect.TypeOf(gv)
			}
			if j, dup := seen[kv.K]; dup {
				sf[j].Type, vals[j] = t, gv // a key written twice: the later value, as in a map literal
				continue
			}
			seen[kv.K] = len(sf)
			sf = append(sf, reflect.StructField{Name: kv.K, Type: t})
			vals = append(vals, gv)
		}
		sv := reflect.New(reflect.StructOf(sf)).Elem()
		for i, gv := range vals {
			if gv != nil {
				sv.Field(i).Set(reflect.ValueOf(gv))
			}
		}
		return sv.Interface()
	case "slice":
		if renamed.K != "l" || logical.K != "l" || len(logical.L) != len(renamed.L) {
			return renamed.ToGo()
		}
		out := make([]any, len(renamed.L))
		for i := range renamed.L {
			out[i] = GoStructOf(n.Elem, logical.L[i], renamed.L[i])
		}
		return out
	case "ptr", "pre":
		return GoStructOf(n.Elem, logical, renamed)
	}
	return renamed.ToGo()
}
