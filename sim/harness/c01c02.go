package harness

import (
	"fmt"
	"reflect"
	"strconv"
	"strings"
	"time"

	z "github.com/Oudwins/zog"
	"github.com/Oudwins/zog/zz_verif/simrt"
)

// ---------------------------------------------------------------------------
// Which map-range sites are struct field visits? Calibrated by observation
// (robust to renames): parse/validate a two-field struct and see which site
// iterated exactly its keys.

var structSites map[string]bool
var structSiteByMode = map[string]string{}

// StructSiteFor returns the map-range site that visits struct fields in the given mode.
func StructSiteFor(mode string) string {
	StructSites()
	return structSiteByMode[mode]
}

func StructSites() map[string]bool {
	if structSites != nil {
		return structSites
	}
	prev := simrt.Cur()
	sites := map[string]bool{}
	r := simrt.NewRun(NewDec(DecCfg{}, NewRng(1), Decisions{}))
	simrt.Install(r)
	type T struct {
		Qa string
		Qb string
	}
	s := z.Struct(z.Schema{"qa": z.String(), "qb": z.String()})
	var d T
	s.Parse(map[string]any{"qa": "x", "qb": "y"}, &d)
	np := len(r.Visits)
	s.Validate(&d)
	for i, v := range r.Visits {
		if len(v.Keys) == 2 && v.Keys[0] == "qa" && v.Keys[1] == "qb" {
			sites[v.Site] = true
			if i < np {
				structSiteByMode["parse"] = v.Site
			} else {
				structSiteByMode["validate"] = v.Site
			}
		}
	}
	// Does the order chosen at those sites really decide the order in which fields are processed? (A refactoring
	// that sorts the keys after ranging over the map keeps the site but ignores its order.) Observe it.
	OrderControlled = len(sites) > 0
	for mode, site := range structSiteByMode {
		d := NewDec(DecCfg{}, NewRng(1), Decisions{})
		d.Forced["visit:"+site] = []int{1} // second key first
		r2 := simrt.NewRun(d)
		simrt.Install(r2)
		var seen []string
		s2 := z.Struct(z.Schema{
			"qa": z.String().TestFunc(func(v any, c z.Ctx) bool { seen = append(seen, "qa"); return true }),
			"qb": z.String().TestFunc(func(v any, c z.Ctx) bool { seen = append(seen, "qb"); return true }),
		})
		d2 := T{Qa: "x", Qb: "y"}
		if mode == "parse" {
			s2.Parse(map[string]any{"qa": "x", "qb": "y"}, &d2)
		} else {
			s2.Validate(&d2)
		}
		if len(seen) != 2 || seen[0] != "qb" {
			OrderControlled = false
		}
	}
	simrt.Uninstall()
	if prev != nil {
		simrt.Install(prev)
	}
	structSites = sites
	return sites
}

// OrderControlled reports whether the simulator's choice at the struct-visit sites is the order in which the
// library processes fields. When it is not, order-dependent expectations (PostTransform gating) are not modelled.
var OrderControlled = true

func structVisits(vs []simrt.Visit) []simrt.Visit {
	sites := StructSites()
	var out []simrt.Visit
	for _, v := range vs {
		if sites[v.Site] {
			out = append(out, v)
		}
	}
	if out == nil {
		out = []simrt.Visit{}
	}
	return out
}

func frontSource(op *Op) string {
	switch op.Front {
	case "zjson":
		return "json"
	case "zenv":
		return "env"
	case "zhttp":
		if op.IO == nil {
			return "json"
		}
		return op.IO.sourceTag()
	}
	return ""
}

// ModelFor evaluates the reference model for one operation, following the
// field visit orders the simulator chose in the real execution.
func ModelFor(n *Node, op *Op, res *Result) *Model {
	m := &Model{Mode: "parse", Source: frontSource(op)}
	if op.Kind == "validate" {
		m.Mode = "validate"
	}
	if res != nil {
		m.Visits = structVisits(res.Visits)
		if !OrderControlled {
			m.Visits = nil
			m.OrderUnknown = true
		}
	}
	in := MIn{V: op.Input}
	m.Eval(n, in, "")
	return m
}

func codeClass(c string) string {
	if len(c) >= 2 && c[0] == 'c' && c[1] >= '0' && c[1] <= '9' {
		return "custom"
	}
	if c == "cust" {
		return "custom"
	}
	return c
}

func nodeByID(root *Node, id int) *Node {
	var out *Node
	root.Walk(func(n *Node) {
		if n.ID == id {
			out = n
		}
	})
	return out
}

// checkC02 compares the issues of one result with the model.
func checkC02(n *Node, op *Op, res *Result) (*Violation, *Model) {
	if res.Panic != "" {
		return &Violation{Class: "C02/panic mode=" + op.Kind, Detail: "call did not return: " + res.Panic}, nil
	}
	m := ModelFor(n, op, res)
	if len(m.Abstain) > 0 {
		return nil, m
	}
	missing, spurious := matchIssues(res.Issues, m.Issues)
	if len(missing) > 0 {
		e := missing[0]
		kind := "?"
		if nn := nodeByID(n, e.Node); nn != nil {
			kind = nn.Kind
		}
		// a missing and a spurious issue with the same code at another path is a misplaced issue
		for _, s := range spurious {
			if s.Code == e.Code && s.Type == e.Type {
				return &Violation{Class: fmt.Sprintf("C02/wrong-path why=%s kind=%s mode=%s", e.Why, kind, op.Kind),
					Detail: fmt.Sprintf("expected %s, got it at %q; all: got %v want %v", e.PCT(), s.Path, res.PCTs(), m.PCTs())}, m
			}
			if s.Path == e.Path && s.Code == e.Code {
				return &Violation{Class: fmt.Sprintf("C02/wrong-type why=%s kind=%s mode=%s", e.Why, kind, op.Kind),
					Detail: fmt.Sprintf("expected %s, got type %q", e.PCT(), s.Type)}, m
			}
			if s.Path == e.Path && s.Type == e.Type && e.Why == "test" {
				return &Violation{Class: fmt.Sprintf("C02/wrong-code kind=%s mode=%s", kind, op.Kind),
					Detail: fmt.Sprintf("expected %s, got code %q", e.PCT(), s.Code)}, m
			}
		}
		return &Violation{Class: fmt.Sprintf("C02/missing-issue why=%s kind=%s mode=%s", e.Why, kind, op.Kind),
			Detail: fmt.Sprintf("expected %s; got %v want %v", e.PCT(), res.PCTs(), m.PCTs())}, m
	}
	if len(spurious) > 0 {
		s := spurious[0]
		dup := false
		for _, e := range m.Issues {
			if e.Path == s.Path && e.Code == s.Code {
				dup = true
			}
		}
		what := "spurious-issue"
		if dup {
			what = "duplicated-issue"
		}
		return &Violation{Class: fmt.Sprintf("C02/%s code=%s type=%s mode=%s", what, codeClass(s.Code), s.Type, op.Kind),
			Detail: fmt.Sprintf("unexpected %s; got %v want %v", s.PCT(), res.PCTs(), m.PCTs())}, m
	}
	if res.Nil != (len(m.Issues) == 0) {
		return &Violation{Class: "C02/nil-ness mode=" + op.Kind,
			Detail: fmt.Sprintf("result nil=%v but %d violations expected", res.Nil, len(m.Issues))}, m
	}
	if !res.Nil && len(res.Issues) == 0 {
		return &Violation{Class: "C02/nil-ness mode=" + op.Kind, Detail: "non-nil result without issues"}, m
	}
	return nil, m
}

// ---------------------------------------------------------------------------
// C01: independent re-evaluation of the destination of a call that returned no issues

// destToModel converts a destination value to the model's value vocabulary.
func destToModel(n *Node, v reflect.Value) any {
	switch n.Kind {
	case "string":
		return v.String()
	case "int":
		return int(v.Int())
	case "float":
		return v.Float()
	case "bool":
		return v.Bool()
	case "time":
		return v.Interface().(time.Time)
	case "custom":
		if n.CT == "int" {
			return int(v.Int())
		}
		return v.String()
	case "slice":
		if v.IsNil() {
			return []any(nil)
		}
		out := make([]any, v.Len())
		for i := range out {
			out[i] = destToModel(n.Elem, v.Index(i))
		}
		return out
	case "ptr":
		if v.IsNil() {
			return nil
		}
		return destToModel(n.Elem, v.Elem())
	case "pre":
		return destToModel(n.Elem, v)
	case "struct":
		out := map[string]any{}
		for _, f := range n.Fields {
			fv := v.FieldByName(GoName(f.Key))
			if fv.IsValid() {
				out[f.Key] = destToModel(f.N, fv)
			}
		}
		return out
	}
	return nil
}

type c01 struct {
	mode  string
	fails []string
	first string
	tests int
	deep  int
}

func (c *c01) fail(cls, detail string) {
	if c.first == "" {
		c.first = cls
	}
	c.fails = append(c.fails, cls+": "+detail)
}

func (c *c01) absent(n *Node, in MIn) bool {
	if c.mode == "parse" {
		return parseAbsent(in)
	}
	if n.Kind == "ptr" {
		return in.Missing || in.V.IsNil()
	}
	if n.Kind == "slice" {
		return validateAbsent(n, in) || in.V.K != "l"
	}
	return validateAbsent(n, in)
}

func (c *c01) walk(n *Node, in MIn, dv reflect.Value, path string, depth int) {
	switch n.Kind {
	case "string", "int", "float", "bool", "time":
		val := destToModel(n, dv)
		caught := n.Catch != nil && modelEqual(val, typedVal(n, *n.Catch))
		if c.absent(n, in) {
			if n.Def == nil {
				if n.Req && !caught {
					c.fail("C01/required-absent kind="+n.Kind+" mode="+c.mode, fmt.Sprintf("required node %q had no value and no issue was reported", path))
				}
				return // absent optional: exempt
			}
		}
		if caught {
			return
		}
		for _, t := range n.Tests {
			c.tests++
			if depth > 0 {
				c.deep++
			}
			if !TestPass(n, t, val) {
				c.fail(fmt.Sprintf("C01/unsatisfied kind=%s test=%s mode=%s", n.Kind, t.T, c.mode),
					fmt.Sprintf("%q holds %s which fails %s(%v) and no issue was reported", path, Canon(val), t.T, testParam(t)))
			}
		}
	case "struct":
		if c.mode == "parse" && !(in.Missing || in.V.IsNil() || in.V.K == "m") {
			return // not a record: C02's business
		}
		for _, f := range n.Fields {
			fin := MIn{Missing: true}
			if fv, ok := in.V.Get(f.Key); ok {
				fin = MIn{V: fv}
			} else if c.mode == "validate" {
				fin = MIn{V: VNil()}
			}
			c.walk(f.N, fin, dv.FieldByName(GoName(f.Key)), joinPath(path, f.Key), depth+1)
		}
		val := destToModel(n, dv)
		for _, t := range n.Tests {
			c.tests++
			if !TestPass(n, t, val) {
				c.fail("C01/unsatisfied kind=struct test=custom mode="+c.mode, fmt.Sprintf("struct at %q fails its test %s and no issue was reported", path, t.Code))
			}
		}
	case "slice":
		var elems []MIn
		if c.absent(n, in) {
			if n.Def == nil {
				if n.Req {
					c.fail("C01/required-absent kind=slice mode="+c.mode, fmt.Sprintf("required slice %q had no value and no issue was reported", path))
				}
				return
			}
			for _, e := range n.Def.L {
				elems = append(elems, MIn{V: e})
			}
		} else if n.Coercer != "" && c.mode == "parse" {
			// a custom slice coercer decides what the list is: the elements are then "present, whatever they came from"
			elems = nil
			if n.Coercer == "const" && n.CoVal != nil && dv.Len() == len(n.CoVal.L) {
				for _, e := range n.CoVal.L {
					elems = append(elems, MIn{V: e})
				}
			}
		} else if in.V.K == "l" || in.V.K == "tl" || in.V.K == "sl" {
			for _, e := range in.V.L {
				elems = append(elems, MIn{V: e})
			}
		} else {
			elems = []MIn{{V: in.V}}
		}
		if elems == nil && n.Coercer != "" && c.mode == "parse" {
			// (no per-element inputs known: only the list's own tests are re-evaluated)
			if dv.Len() > 0 {
				elems = make([]MIn, dv.Len())
				for i := range elems {
					elems[i] = MIn{V: VS("?present")}
				}
			}
		}
		if dv.Len() != len(elems) {
			// length fidelity is C03's; without it the per-element inputs are unknown
			elems = nil
		}
		for i := 0; i < dv.Len(); i++ {
			ein := MIn{V: VS("?present")}
			if elems != nil {
				ein = elems[i]
			} else if c.mode == "validate" {
				continue
			}
			c.walk(n.Elem, ein, dv.Index(i), joinPath(path, "["+strconv.Itoa(i)+"]"), depth+1)
		}
		val := destToModel(n, dv)
		for _, t := range n.Tests {
			c.tests++
			if depth > 0 {
				c.deep++
			}
			if !TestPass(n, t, val) {
				c.fail(fmt.Sprintf("C01/unsatisfied kind=slice test=%s mode=%s", t.T, c.mode),
					fmt.Sprintf("slice %q holds %s which fails %s(%v) and no issue was reported", path, Canon(val), t.T, testParam(t)))
			}
		}
	case "ptr":
		if c.absent(n, in) {
			if n.Req {
				c.fail("C01/required-absent kind=ptr mode="+c.mode, fmt.Sprintf("NotNil pointer %q had no value and no issue was reported", path))
			}
			return
		}
		if dv.IsNil() {
			return
		}
		c.walk(n.Elem, in, dv.Elem(), path, depth)
	case "custom":
		t := TestSpec{T: "custom"}
		if len(n.Tests) > 0 {
			t = n.Tests[0]
		}
		if c.mode == "parse" {
			ok := !in.Missing && ((n.CT == "int" && in.V.K == "i") || (n.CT != "int" && in.V.K == "s"))
			if !ok {
				return
			}
		}
		c.tests++
		if !CustomPass(t, dv.Interface()) {
			c.fail("C01/unsatisfied kind=custom test=custom mode="+c.mode, fmt.Sprintf("custom schema at %q rejects %s and no issue was reported", path, CanonV(dv)))
		}
	case "pre":
		inner := in
		if c.mode == "parse" && n.CT != "str_list" {
			s := ""
			if !(in.Missing || in.V.IsNil()) {
				if in.V.K != "s" {
					return
				}
				s = in.V.S
			}
			if s == "n/a" {
				s = "" // the harness' preprocess function maps this placeholder to the empty string
			}
			inner = MIn{V: VS(strings.TrimSpace(s))}
		} else if c.mode == "parse" {
			if in.Missing || in.V.K != "s" {
				return
			}
			var l []Val
			for _, p := range strings.Split(in.V.S, ",") {
				l = append(l, VS(p))
			}
			inner = MIn{V: VL(l...)}
		} else if in.V.K == "s" {
			inner = MIn{V: VS(strings.TrimSpace(in.V.S))}
		} else if in.V.IsNil() {
			// Validate: the function's output ("" for a nil/zero input) replaces the value, also behind a pointer
			inner = MIn{V: VS("")}
		}
		c.walk(n.Elem, inner, dv, path, depth)
	}
}

func testParam(t TestSpec) string {
	switch t.T {
	case "min", "max", "len", "gt", "gte", "lt", "lte", "eq":
		if t.F != 0 {
			return strconv.FormatFloat(t.F, 'g', -1, 64)
		}
		if t.S != "" {
			return t.S
		}
		return strconv.FormatInt(t.N, 10)
	case "oneof":
		return VL(t.L...).String()
	case "custom":
		return fmt.Sprintf("mod=%d rem=%d", t.Mod, t.Rem)
	}
	if t.S != "" {
		return t.S
	}
	if len(t.L) > 0 {
		return t.L[0].String()
	}
	return ""
}

func checkC01(n *Node, op *Op, res *Result) (*Violation, *c01) {
	if res.Panic != "" {
		return &Violation{Class: "C01/panic mode=" + op.Kind, Detail: "call did not return: " + res.Panic}, nil
	}
	if !res.Nil || len(res.Issues) > 0 {
		return nil, nil
	}
	c := &c01{mode: op.Kind}
	c.walk(n, MIn{V: op.Input}, res.destPtr.Elem(), "", 0)
	if c.first != "" {
		return &Violation{Class: c.first, Detail: strings.Join(c.fails, "; ")}, c
	}
	return nil, c
}

// ---------------------------------------------------------------------------
// Scenarios

func init() {
	Register(&Scenario{ID: "C02", Gen: func(r *Rng, tier string) *World { return genModelWorld(r, "C02") }, Run: runC02,
		Rule: "a world is one random schema tree (all node kinds, modifiers, 0-3 tests per node) and 1-4 Parse/Validate calls on inputs biased to several simultaneous violations, " +
			"each under simulator-chosen field visit orders and recycled pools; every call is compared with the reference model as a multiset of (path, code, type) plus nil-ness; " +
			"non-trivial iff the model expects >=2 issues; distinct by hash of (schema, inputs, decision vectors)"})
	Register(&Scenario{ID: "C01", Gen: func(r *Rng, tier string) *World { return genModelWorld(r, "C01") }, Run: runC01,
		Rule: "same worlds as C02 but inputs biased to almost-valid; when a call returns no issues the destination is walked with the schema and every declared test, Required and NotNil " +
			"is re-evaluated with independent predicates; non-trivial iff the call returned no issues, >=1 test was re-evaluated on a present non-root node and the schema has a catching node or >=2 sibling fields; " +
			"distinct by hash of (schema, inputs, decision vectors)"})
}

func genModelWorld(r *Rng, prop string) *World {
	w := &World{Prop: prop, Cfg: DrawDecCfg(r)}
	mode := "parse"
	c := DrawGenCfg(r, mode)
	c.PPT = Pick(r, []float64{0, 0.15})
	if prop == "C01" {
		c.PValid = Pick(r, []float64{0.9, 0.97, 1})
		c.PBadType = Pick(r, []float64{0, 0.02})
		c.PAbsent = Pick(r, []float64{0.05, 0.15})
		c.PCatch = Pick(r, []float64{0.15, 0.4, 0.6})
	} else {
		c.PValid = Pick(r, []float64{0.3, 0.5, 0.8})
		c.PBadType = Pick(r, []float64{0.05, 0.15, 0.3})
	}
	c.Opts = r.P(0.3)
	c.PTags = 0
	c.Coercers = r.P(0.4)
	c.Widths = true
	c.RawStrings = true
	c.BigInts = true // struct tags are C10's and C14's subject (open finding F-TAGS); keys are schema keys here
	root := GenNode(r, &c, 0, true)
	if r.P(0.08) {
		// long paths: a cold path builder has room for five segments
		w.Family = "deep-chain"
		c.MaxElems = 2
		root = DeepChain(r, &c, DeepSegments(r))
	}
	AddEmptyZogTag(r, root, 0.12)
	if r.P(0.3) {
		// z.IssuePath on some tests: where a test reports is its own business and nobody else's
		root.Walk(func(n *Node) {
			for i := range n.Tests {
				if r.P(0.2) && n.Catch == nil && !n.Tests[i].TFunc && n.Tests[i].Path == "" {
					n.Tests[i].Path = "custom.path" + strconv.Itoa(i)
				}
			}
		})
	}
	w.Schemas = []*Node{root}
	no := 1 + r.Intn(4)
	var ops []Op
	for i := 0; i < no; i++ {
		op := Op{Schema: 0}
		canValidate := true
		root.Walk(func(m *Node) {
			if m.Kind == "pre" && m.CT == "str_list" {
				canValidate = false
			}
		})
		if canValidate && r.P(0.4) {
			op.Kind = "validate"
			op.Input = GenValidateInput(r, &c, root, false)
		} else {
			op.Kind = "parse"
			v, missing := GenParseInput(r, &c, root)
			if missing {
				v = VNil()
			}
			if r.P(0.15) {
				v = typedLists(root, v)
			}
			v = NonEmptyRecords(root, v)
			op.Input = v
		}
		op.Rev = r.P(0.25)
		ops = append(ops, op)
	}
	w.Tasks = [][]Op{ops}
	return w
}

func hasCatchOrSiblings(n *Node) bool {
	ok := false
	n.Walk(func(m *Node) {
		if m.Catch != nil || len(m.Fields) >= 2 {
			ok = true
		}
	})
	return ok
}

func runC02(x *X) *Violation {
	w := x.W
	x.BuildSchemas()
	x.FreshRun("r/")
	for i := range w.Tasks[0] {
		op := &w.Tasks[0][i]
		if op.Kind != "parse" && op.Kind != "validate" {
			continue
		}
		res := x.Exec("0:"+strconv.Itoa(i), op)
		v, m := checkC02(x.Built[op.Schema].N, op, res)
		if m != nil {
			if len(m.Abstain) > 0 {
				x.Probes["model_abstained"]++
			} else {
				x.Probes["model_compared"]++
				if len(m.Issues) >= 2 {
					x.NonTrivial = true
					x.Probes["two_plus_issues"]++
				}
				for _, mn := range m.Nodes {
					if mn.Caught {
						x.Probes["catch_fired"]++
					}
					if mn.Default {
						x.Probes["default_applied"]++
					}
					if mn.Issues >= 2 {
						x.Probes["two_plus_issues_one_node"]++
					}
				}
			}
		}
		if v != nil {
			return v
		}
	}
	return nil
}

func runC01(x *X) *Violation {
	w := x.W
	x.BuildSchemas()
	x.FreshRun("r/")
	for i := range w.Tasks[0] {
		op := &w.Tasks[0][i]
		if op.Kind != "parse" && op.Kind != "validate" {
			continue
		}
		n := x.Built[op.Schema].N
		res := x.Exec("0:"+strconv.Itoa(i), op)
		v, c := checkC01(n, op, res)
		if c != nil {
			x.Probes["success_checked"]++
			if c.deep > 0 && hasCatchOrSiblings(n) {
				x.NonTrivial = true
			}
			x.Probes["tests_reevaluated"] += int64(c.tests)
		}
		if v != nil {
			return v
		}
	}
	return nil
}
