package harness

import (
	"fmt"
	"strconv"
	"strings"
)

// C15 – zhttp picks the documented source and reports undecodable requests as one issue.
//
// Fault enumeration: world index = request index * c15Stride + fault index. For
// every generated request every fault position (truncation / read error / read
// error together with the last bytes, at every byte offset of the body, under
// two chunkings) is its own world, so that each is individually replayable.

const c15Stride = 512

func init() {
	Register(&Scenario{ID: "C15", GenIdx: genC15, Run: runC15,
		Rule: "requests: method x Content-Type (absent/json/form/other x no parameter/'; charset=utf-8'/';charset=utf-8') x query string x body (valid, {}, non-object, malformed, empty; form valid/malformed) with distinct sentinel values per source, " +
			"repeated and []-suffixed parameters; for every request, truncation (EOF), read error and read-error-with-data at EVERY byte offset of the body under two chunkings, plus close errors, are enumerated (one world each). " +
			"Oracle: documented dispatch table read off the sentinels (result equals parsing the chosen source's record through the plain map front end); undecodable => exactly one top-level invalid_json/invalid_form issue, no schema callback, destination untouched; " +
			"decodable prefix => fault-free result. Non-trivial iff a fault fired inside the body or the request mixes >=2 sources; distinct by (request, fault position, kind, chunking)"})
}

type c15req struct {
	root    *Node
	j, f, q Val
	io      IOSpec
	class   string // body class
}

func genC15Request(r *Rng) c15req {
	var rq c15req
	root := &Node{Kind: "struct"}
	nf := 1 + r.Intn(3)
	keys := []string{"a", "b", "n", "ok", "tags", "ids"}
	used := map[string]bool{}
	for i := 0; i < nf; i++ {
		k := Pick(r, keys)
		if used[k] {
			continue
		}
		used[k] = true
		var n *Node
		switch k {
		case "a", "b":
			n = &Node{Kind: "string", Req: r.P(0.5)}
		case "n":
			n = &Node{Kind: "int", Req: r.P(0.5)}
		case "ok":
			n = &Node{Kind: "bool", Req: r.P(0.3)}
		default:
			n = &Node{Kind: "slice", Req: r.P(0.6), Elem: &Node{Kind: "string"}}
			if r.P(0.4) {
				n.Tests = append(n.Tests, TestSpec{T: "min", N: int64(1 + r.Intn(2))})
			}
		}
		n.Tests = append(n.Tests, TestSpec{T: "custom", Mod: 0, Code: "rec"})
		f := &Field{Key: k, N: n}
		if n.Kind == "slice" && r.P(0.6) {
			f.Tags = []KV{{"form", VS(k + "[]")}, {"query", VS(k + "[]")}}
		} else if r.P(0.25) {
			f.Tags = []KV{{"json", VS("j" + k)}, {"form", VS("f" + k)}, {"query", VS("q" + k)}}
		}
		root.Fields = append(root.Fields, f)
	}
	rq.root = root
	rec := func(src int) Val {
		m := VM()
		for _, f := range root.Fields {
			if r.P(0.2) {
				continue // missing
			}
			var v Val
			switch f.N.Kind {
			case "string":
				v = VS(Pick(r, []string{"x", "yz", "w w", ""}) + []string{"J", "F", "Q"}[src])
				if r.P(0.08) {
					v = VS("")
				}
			case "int":
				v = VI(int64(src*10 + 1 + r.Intn(9)))
				if r.P(0.1) {
					v = VS("zz")
				}
			case "bool":
				v = VB(r.P(0.5))
			case "slice":
				v = VL()
				for i := 0; i < r.Intn(4); i++ {
					v.L = append(v.L, VS(Pick(r, []string{"t", "u", "vv"})+[]string{"J", "F", "Q"}[src]+strconv.Itoa(i)))
				}
				if len(v.L) == 0 && src != 0 {
					continue
				}
			}
			m.M = append(m.M, KV{f.Key, v})
		}
		if src != 0 {
			// the other spelling of a list parameter next to the one the field reads (`tags=..&tags[]=..`): another parameter,
			// not part of this field
			for _, f := range root.Fields {
				if f.N.Kind != "slice" || !r.P(0.2) {
					continue
				}
				if tag, ok := f.Tag("form"); ok && tag == f.Key+"[]" {
					m.M = append(m.M, KV{"!" + f.Key, VS("strayP" + []string{"J", "F", "Q"}[src])})
				} else if !ok {
					m.M = append(m.M, KV{"!" + f.Key + "[]", VL(VS("strayB" + []string{"J", "F", "Q"}[src]))})
				}
			}
		}
		return m
	}
	rq.j, rq.f, rq.q = rec(0), rec(1), rec(2)
	io := IOSpec{}
	io.Method = Pick(r, []string{"GET", "HEAD", "POST", "POST", "PUT", "PATCH", "DELETE", "OPTIONS"})
	if r.P(0.12) {
		// any other method token is a method with a body as far as the documented dispatch goes ("GET and HEAD read the query")
		io.Method = Pick(r, []string{"QUERY", "PROPFIND", "REPORT", "TRACE", "CONNECT", "SEARCH", "LINK", "get", "Post", "X-CUSTOM"})
	}
	base := Pick(r, []string{"", "application/json", "application/json", "application/x-www-form-urlencoded", "application/x-www-form-urlencoded", "text/plain", "multipart/form-data"})
	if r.P(0.12) {
		// other media types, among them ones that merely start like the two that select a body
		base = Pick(r, []string{"application/json-patch+json", "application/jsonl", "application/json-seq", "application/json5",
			"application/x-www-form-urlencoded-v2", "application/xml", "application/x-json", "text/json", "application/ld+json"})
	}
	if r.P(0.08) {
		// the same media types in another case or padded (RFC 9110 compares them case-insensitively; net/http's
		// ParseForm does too): whichever reading the library takes, it must take it as a whole
		base = Pick(r, []string{"Application/JSON", "application/JSON", "APPLICATION/X-WWW-FORM-URLENCODED", "Application/X-WWW-Form-Urlencoded",
			" application/json", "application/x-www-form-urlencoded ", " application/x-www-form-urlencoded"})
	}
	mt := strings.ToLower(strings.TrimSpace(base))
	if base != "" {
		if base == "application/json" && r.P(0.15) {
			// parameters are ignored, well-formed or not (for a form body net/http itself parses the header and may refuse it)
			base += Pick(r, []string{"; charset", "; charset=", `; charset="utf-8`, "; q=0.9; Q=0.8", ";", "; =x"})
		} else {
			base += Pick(r, []string{"", "", "; charset=utf-8", ";charset=utf-8", "; boundary=x", "; charset=utf-8; q=0.9"})
		}
	}
	io.CT = base
	if r.P(0.7) {
		q := rq.q
		io.QueryIn = &q
	}
	if r.P(0.08) {
		// a query string url.ParseQuery rejects: part of "the form (body plus query, as net/http defines it)"
		io.QueryIn = nil
		io.Query = Pick(r, []string{"a=%zz", "n=%2", "a=1;b=2", "%"})
	}
	// the body is whatever the content type suggests, or deliberately something else
	kind := "json"
	if mt == "application/x-www-form-urlencoded" || (r.P(0.2) && mt != "application/json") {
		kind = "form"
	}
	io.BodyKind = kind
	rq.class = "valid"
	x := r.Float()
	switch kind {
	case "json":
		switch {
		case x < 0.1:
			rq.class, io.BodyKind, io.Body = "empty_obj", "raw", Pick(r, []string{"{}", "{ }", "{}\n"})
		case x < 0.2:
			rq.class, io.BodyKind, io.Body = "non_object", "raw", Pick(r, []string{"[1,2]", `"str"`, "12", "null", "true", "[]"})
		case x < 0.32:
			rq.class, io.BodyKind, io.Body = "malformed", "raw", Pick(r, []string{`{"a":`, `{"a":1,}`, "nope", `{a:1}`, `{"a":"x"`, "{", `{"a" 1}`})
		case x < 0.38:
			rq.class, io.BodyKind, io.Body = "empty", "raw", ""
		}
	case "form":
		switch {
		case x < 0.15:
			rq.class, io.BodyKind, io.Body = "malformed", "raw", Pick(r, []string{"a=%zz&b=1", "%", "a=1&%gh=2", "a=1;b=2"})
		case x < 0.2:
			rq.class, io.BodyKind, io.Body = "empty", "raw", ""
		}
	}
	if rq.class == "empty" && r.P(0.5) {
		io.NoBody = true
	}
	io.CloseErr = r.P(0.1)
	io.EOFData = r.P(0.3)
	rq.io = io
	return rq
}

type c15fault struct {
	at    int // TruncAt (position+1), 0 none
	kind  string
	chunk int
}

func genC15(seed uint64, idx int, tier string) *World {
	reqIdx, fi := idx/c15Stride, idx%c15Stride
	r := NewRng(Mix(seed, uint64(reqIdx)+0xc15))
	rq := genC15Request(r)
	schemaRoot := rq.root
	if r.P(0.15) {
		// a top-level optional struct
		schemaRoot = &Node{Kind: "ptr", Elem: rq.root}
	}
	w := &World{Prop: "C15", Cfg: DrawDecCfg(r), Schemas: []*Node{schemaRoot}, Params: map[string]int{}}
	op := Op{Kind: "parse", Schema: 0, Front: "zhttp", Input: rq.j}
	io := rq.io
	if io.BodyKind == "form" {
		op.Input = rq.f
	}
	b := &Built{N: rq.root}
	op.IO = &io
	body := op.IOBody(b, io.BodyKind)
	if io.BodyKind == "json" && r.P(0.12) {
		// insignificant white space around the document (RFC 8259 section 2)
		body = Pick(r, []string{" ", "\n", "\t", "\r\n  "}) + body + Pick(r, []string{"", "\n", " "})
	}
	if io.BodyKind != "raw" {
		// freeze the rendering so that offsets are well defined
		io.BodyKind, io.Body = "raw", body
	}
	var faults []c15fault
	faults = append(faults, c15fault{0, "", 0}, c15fault{0, "", 1}, c15fault{0, "", 3})
	for k := 0; k <= len(body); k++ {
		for _, kind := range []string{"eof", "err", "err_with_data"} {
			if kind == "err_with_data" && k == 0 {
				continue
			}
			if kind == "eof" && k == len(body) {
				continue
			}
			for _, ch := range []int{0, 2} {
				faults = append(faults, c15fault{k + 1, kind, ch})
			}
		}
	}
	if fi >= len(faults) {
		w.Params["skip"] = 1
		return w
	}
	if len(faults) > c15Stride {
		w.Params["offsets_not_enumerated"] = len(faults) - c15Stride
	}
	f := faults[fi]
	io.TruncAt, io.Fault, io.Chunk = f.at, f.kind, f.chunk
	// some requests were built the way a client builds them and still carry GetBody
	io.GetBody = []string{"", "", "", "same", "same", "other", "err"}[Mix(seed, uint64(idx)+0x6e7b0d)%7]
	s := Sentinel(schemaRoot)
	op.Pre = &s
	w.Tasks = [][]Op{{op}}
	w.Params["class_"+rq.class] = 1
	w.Params["nfaults"] = len(faults)
	// the records of the other sources travel with the world (the oracle reads the sentinels)
	w.Tasks = append(w.Tasks, []Op{{Kind: "record", Arg: "form", Input: rq.f}, {Kind: "record", Arg: "json", Input: rq.j}})
	return w
}

// completeJSONObjectLen returns the length of the shortest prefix of body that
// holds one complete top-level JSON value, or -1. Only used for bodies of class
// valid / empty_obj (objects) and non_object.
func completeJSONLen(body string) int {
	depth := 0
	inStr := false
	esc := false
	started := false
	for i := 0; i < len(body); i++ {
		c := body[i]
		if inStr {
			switch {
			case esc:
				esc = false
			case c == '\\':
				esc = true
			case c == '"':
				inStr = false
				if depth == 0 {
					return i + 1
				}
			}
			continue
		}
		switch c {
		case ' ', '\n', '\t', '\r':
			continue
		case '"':
			inStr = true
			started = true
		case '{', '[':
			depth++
			started = true
		case '}', ']':
			depth--
			if depth == 0 {
				return i + 1
			}
		default:
			started = true
		}
	}
	_ = started
	return -1
}

// seenFlat converts a logical record to what a url.Values source delivers,
// keyed by schema keys: a parameter named with a [] suffix is always a list, a
// repeated one a list, a single one a string, a missing one absent.
func seenFlat(root *Node, rec Val, source string) Val {
	out := VM()
	for _, f := range root.Fields {
		v, ok := rec.Get(f.Key)
		if !ok || v.IsNil() {
			continue
		}
		key := SourceKey(f, source)
		brackets := strings.HasSuffix(key, "[]") && len(key) > 2
		switch v.K {
		case "l":
			var l []Val
			for _, e := range v.L {
				l = append(l, VS(scalarString(e)))
			}
			switch {
			case len(l) == 0:
				continue
			case len(l) == 1 && !brackets:
				out.M = append(out.M, KV{f.Key, l[0]})
			default:
				out.M = append(out.M, KV{f.Key, Val{K: "sl", L: l}})
			}
		default:
			s := VS(scalarString(v))
			if brackets {
				out.M = append(out.M, KV{f.Key, Val{K: "sl", L: []Val{s}}})
			} else {
				out.M = append(out.M, KV{f.Key, s})
			}
		}
	}
	return out
}

// mergeForm implements "body plus query, as net/http defines it": body values first.
func mergeForm(root *Node, body, query Val, haveBody, haveQuery bool) Val {
	out := VM()
	for _, f := range root.Fields {
		var vals []Val
		add := func(rec Val) {
			v, ok := rec.Get(f.Key)
			if !ok || v.IsNil() {
				return
			}
			if v.K == "l" {
				vals = append(vals, v.L...)
			} else {
				vals = append(vals, v)
			}
		}
		if haveBody {
			add(body)
		}
		// a query parameter reaches the form field only if it has the same name
		if haveQuery && SourceKey(f, "query") == SourceKey(f, "form") {
			add(query)
		}
		if len(vals) == 0 {
			continue
		}
		if len(vals) == 1 {
			if bv, ok := body.Get(f.Key); haveBody && ok && bv.K != "l" {
				out.M = append(out.M, KV{f.Key, vals[0]})
				continue
			}
			if qv, ok := query.Get(f.Key); ok && qv.K != "l" && SourceKey(f, "query") == SourceKey(f, "form") {
				out.M = append(out.M, KV{f.Key, vals[0]})
				continue
			}
		}
		out.M = append(out.M, KV{f.Key, VL(vals...)})
	}
	return out
}

func renameFirstSeg(root *Node, path, source string) string {
	for _, f := range root.Fields {
		if path == f.Key || strings.HasPrefix(path, f.Key+"[") || strings.HasPrefix(path, f.Key+".") {
			return SourceKey(f, source) + path[len(f.Key):]
		}
	}
	return path
}

func runC15(x *X) *Violation {
	w := x.W
	if w.P("skip") == 1 || len(w.Tasks) == 0 || len(w.Tasks[0]) == 0 {
		return nil
	}
	x.BuildSchemas()
	root := x.Built[0].N
	ptrRoot := root.Kind == "ptr"
	if ptrRoot {
		root = root.Elem
	}
	op := &w.Tasks[0][0]
	io := op.IO
	if io == nil {
		return nil
	}
	var fRec, jRec Val = VM(), VM()
	if len(w.Tasks) > 1 {
		for _, o := range w.Tasks[1] {
			if o.Kind == "record" && o.Arg == "form" {
				fRec = o.Input
			}
			if o.Kind == "record" && o.Arg == "json" {
				jRec = o.Input
			}
		}
	}
	x.FreshRun("r/")
	firedBefore := x.Faults["rd_err"] + x.Faults["rd_trunc"]
	res := x.Exec("0:0", op)
	fired := x.Faults["rd_err"]+x.Faults["rd_trunc"] > firedBefore
	desc := fmt.Sprintf("%s ct=%q body=%q query=%v fault=%s@%d chunk=%d", io.Method, io.CT, io.Body, io.QueryIn != nil, io.Fault, io.TruncAt-1, io.Chunk)
	if res.Panic != "" {
		return &Violation{Class: "C15/panic src=" + io.dispatch(), Detail: desc + ": " + res.Panic}
	}
	check := func(src, phase string) *Violation {
		body := io.Body
		delivered := body
		faultErr := false
		if io.TruncAt > 0 && io.TruncAt-1 <= len(body) {
			delivered = body[:io.TruncAt-1]
			faultErr = io.Fault == "err" || io.Fault == "err_with_data"
		}
		if io.TruncAt > 0 && io.TruncAt-1 == len(body) && io.Fault == "eof" {
			delivered = body
		}
		if io.NoBody {
			// http.NoBody is not the scripted reader: it is empty and never fails
			delivered, faultErr = "", false
		}
		class := "valid"
		for _, c := range []string{"empty_obj", "non_object", "malformed", "empty"} {
			if w.P("class_"+c) == 1 {
				class = c
			}
		}
		bodyParsed := io.Method == "POST" || io.Method == "PUT" || io.Method == "PATCH"
		var expectFail string
		var seen Val
		switch src {
		case "json":
			n := completeJSONLen(body)
			switch {
			case class == "malformed" || class == "empty" || class == "non_object":
				expectFail = "invalid_json"
			case n < 0 || len(delivered) < n:
				expectFail = "invalid_json"
			}
			if class == "empty_obj" {
				seen = VM()
			} else {
				seen = AsSeen("json", jRec)
			}
		case "form":
			q := VM()
			if io.QueryIn != nil {
				q = *io.QueryIn
			}
			if io.Query != "" {
				// malformed query string: the form as a whole cannot be decoded, whatever the method
				expectFail = "invalid_form"
			} else if bodyParsed {
				if faultErr {
					expectFail = "invalid_form"
				} else if class == "malformed" && delivered == body {
					expectFail = "invalid_form"
				} else if delivered != body || class == "malformed" || (class == "valid" && !isFormOf(root, fRec, body)) {
					// a cleanly truncated or foreign body is just a different form: no oracle beyond "returns"
					x.Probes["form_truncated_no_oracle"]++
					return nil
				}
			}
			have := bodyParsed && class == "valid"
			seen = seenFlat(root, mergeForm(root, fRec, q, have, io.QueryIn != nil), "form")
		default:
			if io.Query != "" {
				x.Probes["malformed_query_no_oracle"]++
				return nil // query source with a malformed query string: outside what the statement settles
			}
			q := VM()
			if io.QueryIn != nil {
				q = *io.QueryIn
			}
			seen = seenFlat(root, q, "query")
		}
		if fired || (io.QueryIn != nil && src != "query") {
			x.NonTrivial = true
		}
		if expectFail != "" {
			x.Probes["decode_failure"]++
			if len(res.Issues) != 1 || res.Issues[0].Code != expectFail {
				got := res.PCTs()
				cls := "C15/undecodable-body-not-one-issue"
				if len(res.Issues) == 0 {
					cls = "C15/undecodable-body-accepted"
				}
				return &Violation{Class: fmt.Sprintf("%s src=%s class=%s fault=%s", cls, src, class, io.Fault),
					Detail: fmt.Sprintf("%s: want exactly one %s issue, got %v (dest %s)", desc, expectFail, got, res.Dest)}
			}
			if res.Issues[0].Path != "" || res.Issues[0].Key != "$root" {
				return &Violation{Class: "C15/decode-issue-not-top-level src=" + src, Detail: fmt.Sprintf("%s: issue at path %q key %q", desc, res.Issues[0].Path, res.Issues[0].Key)}
			}
			if len(res.Calls) > 0 {
				return &Violation{Class: "C15/schema-ran-after-decode-failure src=" + src, Detail: fmt.Sprintf("%s: %d schema callbacks ran", desc, len(res.Calls))}
			}
			want := CanonV(Populate(x.Built[0].Typ, Sentinel(x.Built[0].N)))
			if res.Dest != want {
				return &Violation{Class: "C15/destination-written-after-decode-failure src=" + src, Detail: fmt.Sprintf("%s: destination %s, was %s", desc, res.Dest, want)}
			}
			return nil
		}
		if fired {
			x.Probes["decode_ok_after_fault"]++
		}
		// the chosen source's record through the plain map front end
		if ptrRoot && src == "json" && len(seen.M) == 0 {
			// `{}` for a top-level optional struct is "absent" (pinned upstream by TestTopLevelOptionalStruct)
			seen = VNil()
		}
		exp := Op{Kind: "parse", Schema: 0, Front: "map", Input: seen, Pre: op.Pre}
		x.SetPhase(phase)
		x.Dec.Benign[phase] = true
		re := x.Exec("0:e", &exp)
		var gotP, wantP []string
		for _, i := range res.Issues {
			gotP = append(gotP, i.PCT())
		}
		tag := src
		if src == "json" && len(seen.M) == 0 {
			// paths of an empty record are reported under schema keys (open finding F-TAGS, C10): compare by schema key here
			tag = ""
		}
		for _, i := range re.Issues {
			wantP = append(wantP, renameFirstSeg(root, i.Path, tag)+"|"+i.Code+"|"+i.Type)
		}
		if !sameStrings(gotP, wantP) || res.Dest != re.Dest {
			return &Violation{Class: fmt.Sprintf("C15/wrong-source-or-result src=%s method=%s class=%s", src, methodClass(io.Method), class),
				Detail: fmt.Sprintf("%s: documented source %s delivers %s => issues %v dest %s; got issues %v dest %s", desc, src, seen.String(), wantP, re.Dest, gotP, res.Dest)}
		}
		x.Probes["dispatch_checked_"+src]++
		return nil
	}
	src := io.dispatch()
	v := check(src, "e/")
	if alt := io.dispatchLenient(); v != nil && alt != src {
		// a media type written in another case or with padding: the statement does not say whether it still names
		// its source - either reading is accepted, a mixture of sources is not
		x.Probes["ambiguous_media_type"]++
		if v2 := check(alt, "e2/"); v2 == nil {
			return nil
		}
	}
	return v
}

func methodClass(m string) string {
	switch m {
	case "GET", "HEAD":
		return m
	case "POST", "PUT", "PATCH":
		return "body-method"
	}
	return "other"
}

// isFormOf reports whether body is exactly the rendering of the form record
// (i.e. the body really is the F record and not a JSON document sent with a form content type).
func isFormOf(root *Node, f Val, body string) bool {
	return FormEncode(FlatPairs(RenameKeys(root, f, "form"))) == body
}
