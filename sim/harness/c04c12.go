package harness

import (
	"fmt"
	"reflect"
	"sort"
	"strconv"
	"strings"
)

// ---------------------------------------------------------------------------
// Callback conformance shared by C04 and C12: recorded invocations vs. model

type cbKey struct {
	node int
	kind string
	idx  int
}

func goTypeName(n *Node) string {
	switch n.Kind {
	case "string":
		if n.W == "named" {
			return "harness.NamedStr"
		}
		return "string"
	case "int":
		if n.W == "64" {
			return "int64"
		}
		if n.W == "32" {
			return "int32"
		}
		return "int"
	case "float":
		if n.W == "32" {
			return "float32"
		}
		return "float64"
	case "bool":
		return "bool"
	case "time":
		return "time.Time"
	}
	return ""
}

func checkCallbacks(prop string, root *Node, op *Op, res *Result, m *Model) *Violation {
	must, may, forbid := map[cbKey]int{}, map[cbKey]int{}, map[cbKey]bool{}
	wantArgs := map[cbKey][]string{}
	for _, e := range m.Expect {
		k := cbKey{e.Node, e.Kind, e.Idx}
		if e.Must {
			must[k]++
			if e.Arg != "" {
				wantArgs[k] = append(wantArgs[k], e.Arg)
			}
		} else {
			may[k]++
		}
	}
	for _, e := range m.Forbid {
		forbid[cbKey{e.Node, e.Kind, e.Idx}] = true
	}
	got := map[cbKey]int{}
	gotArgs := map[cbKey][]string{}
	// expected ctx values of this call
	wantGets := map[string]string{}
	for _, o := range op.Opts {
		if o.K == "ctx" {
			wantGets[o.Key] = Canon(o.Val.ToGo())
		}
	}
	lastPT := map[int]int{}
	for _, c := range res.Calls {
		k := cbKey{c.Node, c.Kind, c.Idx}
		got[k]++
		gotArgs[k] = append(gotArgs[k], c.Arg)
		n := nodeByID(root, c.Node)
		nk := "?"
		if n != nil {
			nk = n.Kind
		}
		if c.Addr == 0 {
			return &Violation{Class: fmt.Sprintf("%s/callback-argument-not-the-node-destination cb=%s kind=%s mode=%s", prop, c.Kind, nk, op.Kind),
				Detail: fmt.Sprintf("callback %s#%d of node n%d (%s) received %s %s, not a non-nil pointer to its destination", c.Kind, c.Idx, c.Node, nk, c.ArgT, c.Arg)}
		}
		if c.Kind == "test" && n != nil && n.IsPrim() && c.ArgT != goTypeName(n) {
			return &Violation{Class: fmt.Sprintf("%s/primitive-test-argument-type kind=%s mode=%s", prop, nk, op.Kind),
				Detail: fmt.Sprintf("TestFunc of n%d received a %s, want the %s value itself", c.Node, c.ArgT, goTypeName(n))}
		}
		for _, g := range c.Gets {
			kv := strings.SplitN(g, "=", 2)
			want, ok := wantGets[kv[0]]
			if !ok {
				want = "nil"
			}
			if kv[1] != want {
				return &Violation{Class: fmt.Sprintf("%s/ctx-get-wrong cb=%s mode=%s", prop, c.Kind, op.Kind),
					Detail: fmt.Sprintf("ctx.Get(%q) in %s#%d of n%d returned %s, this call passed %s", kv[0], c.Kind, c.Idx, c.Node, kv[1], want)}
			}
		}
		if c.Kind == "pt" {
			if last, ok := lastPT[c.Node]; ok && c.Idx != 0 && c.Idx != last+1 {
				return &Violation{Class: fmt.Sprintf("%s/posttransform-order kind=%s mode=%s", prop, nk, op.Kind),
					Detail: fmt.Sprintf("PostTransform #%d of n%d ran after #%d", c.Idx, c.Node, last)}
			}
			if _, ok := lastPT[c.Node]; !ok && c.Idx != 0 {
				return &Violation{Class: fmt.Sprintf("%s/posttransform-order kind=%s mode=%s", prop, nk, op.Kind),
					Detail: fmt.Sprintf("PostTransform #%d of n%d ran first", c.Idx, c.Node)}
			}
			lastPT[c.Node] = c.Idx
		}
	}
	if len(m.Abstain) > 0 || m.Desync {
		return nil
	}
	keys := map[cbKey]bool{}
	for k := range must {
		keys[k] = true
	}
	for k := range may {
		keys[k] = true
	}
	for k := range forbid {
		keys[k] = true
	}
	for k := range got {
		keys[k] = true
	}
	var ks []cbKey
	for k := range keys {
		ks = append(ks, k)
	}
	sort.Slice(ks, func(i, j int) bool {
		if ks[i].node != ks[j].node {
			return ks[i].node < ks[j].node
		}
		if ks[i].kind != ks[j].kind {
			return ks[i].kind < ks[j].kind
		}
		return ks[i].idx < ks[j].idx
	})
	for _, k := range ks {
		n := nodeByID(root, k.node)
		nk := "?"
		if n != nil {
			nk = n.Kind
		}
		g := got[k]
		if g < must[k] {
			return &Violation{Class: fmt.Sprintf("%s/callback-not-run cb=%s kind=%s mode=%s", prop, k.kind, nk, op.Kind),
				Detail: fmt.Sprintf("%s#%d of n%d (%s) ran %d times, expected %d (issues: %v)", k.kind, k.idx, k.node, nk, g, must[k], res.PCTs())}
		}
		if g > must[k]+may[k] {
			why := "callback-ran-too-often"
			if forbid[k] && k.kind == "pt" {
				why = "posttransform-ran-despite-issues"
			} else if forbid[k] || must[k]+may[k] == 0 {
				why = "callback-ran-on-skipped-node"
			}
			return &Violation{Class: fmt.Sprintf("%s/%s cb=%s kind=%s mode=%s", prop, why, k.kind, nk, op.Kind),
				Detail: fmt.Sprintf("%s#%d of n%d (%s) ran %d times, expected at most %d (issues: %v)", k.kind, k.idx, k.node, nk, g, must[k]+may[k], res.PCTs())}
		}
		if may[k] == 0 && len(wantArgs[k]) == must[k] && must[k] > 0 {
			a, b := append([]string(nil), gotArgs[k]...), append([]string(nil), wantArgs[k]...)
			if !sameStrings(a, b) {
				return &Violation{Class: fmt.Sprintf("%s/callback-argument-value cb=%s kind=%s mode=%s", prop, k.kind, nk, op.Kind),
					Detail: fmt.Sprintf("%s#%d of n%d saw %v, the node's own values are %v", k.kind, k.idx, k.node, a, b)}
			}
		}
	}
	return nil
}

// ---------------------------------------------------------------------------
// C12

func init() {
	Register(&Scenario{ID: "C12", Gen: genC12, Run: runC12,
		Rule: "a world is a nested schema with recording tests, PostTransforms (some returning an error or a ZogIssue), custom-schema and Preprocess functions on its nodes and 1-3 Parse/Validate calls with WithCtxValue; " +
			"the recorded invocations (argument type, value, identity with the node's destination address, ctx.Get of every key, count, order) are compared with the model evaluated under the visit orders the simulator chose; " +
			"non-trivial iff >=3 callback invocations were recorded at depth >=1 and at least one PostTransform decision (run / must not run) was checked; distinct by hash of (schema, inputs, decision vectors)"})
}

func genC12(r *Rng, tier string) *World {
	w := &World{Prop: "C12", Cfg: DrawDecCfg(r)}
	c := DrawGenCfg(r, "parse")
	c.PTags = 0
	c.MaxDepth = 2 + r.Intn(2)
	c.PPT = Pick(r, []float64{0.3, 0.6})
	c.PPTErr = Pick(r, []float64{0, 0.15, 0.3})
	c.HandMade = true
	c.Coercers = r.P(0.4)
	c.Widths = true
	c.PCustomT = Pick(r, []float64{0.5, 0.8})
	c.StructTests = 0.8
	c.PValid = Pick(r, []float64{0.7, 0.9, 1})
	c.PBadType = Pick(r, []float64{0, 0.05})
	for _, k := range []string{"struct", "slice", "ptr"} {
		if !c.has(k) {
			c.Kinds = append(c.Kinds, k)
		}
	}
	root := GenNode(r, &c, 0, true)
	if r.P(0.3) {
		// the shapes the statement names: struct in slice, struct behind pointer
		inner := genKind(r, &c, "struct", 1)
		if r.P(0.5) {
			root = &Node{Kind: "struct", Fields: []*Field{{Key: "items", N: &Node{Kind: "slice", Elem: inner}}}}
		} else {
			root = &Node{Kind: "struct", Fields: []*Field{{Key: "p", N: &Node{Kind: "ptr", Elem: inner}}}}
		}
		genTests(r, &c, root)
	}
	var recPass *Node
	hasStrList := r.P(0.1)
	if hasStrList && root.Kind == "struct" && len(root.Fields) < 5 {
		root.Fields = append(root.Fields, &Field{Key: "csv", N: &Node{Kind: "pre", CT: "str_list",
			Elem: &Node{Kind: "slice", Elem: &Node{Kind: "string", Tests: []TestSpec{{T: "custom", Mod: 0, Code: "c0"}}}}}})
	} else {
		hasStrList = false
	}
	if root.Kind == "struct" && len(root.Fields) < 5 && r.P(0.12) {
		// Preprocess in front of a nested record (parse only, like the list splitter)
		cs := c
		cs.MaxDepth = 3
		cs.without("pre", "struct", "slice", "ptr", "custom")
		inner := genKind(r, &cs, "struct", 2)
		root.Fields = append(root.Fields, &Field{Key: "prec", N: &Node{Kind: "pre", CT: "rec_pass", Elem: inner}})
		hasStrList = true // (parse-only world)
		recPass = inner
	}
	w.Schemas = []*Node{root}
	var ops []Op
	for i := 0; i < 1+r.Intn(3); i++ {
		op := Op{Schema: 0}
		if !hasStrList && r.P(0.45) {
			op.Kind = "validate"
			op.Input = GenValidateInput(r, &c, root, false)
		} else {
			op.Kind = "parse"
			v, missing := GenParseInput(r, &c, root)
			if missing {
				v = VNil()
			}
			if recPass != nil && v.K == "m" {
				// the record for the preprocessed field (sometimes something that is no record at all)
				var kept []KV
				for _, kv := range v.M {
					if kv.K != "prec" {
						kept = append(kept, kv)
					}
				}
				v.M = kept
				if r.P(0.85) {
					rv, miss := GenParseInput(r, &c, recPass)
					if !miss {
						if r.P(0.1) {
							rv = Pick(r, []Val{VS("x"), VI(3), VL(VS("a"))})
						}
						v.M = append(v.M, KV{"prec", rv})
					}
				}
			}
			if hasStrList && recPass == nil && v.K == "m" && r.P(0.8) {
				v.M = append(v.M, KV{"csv", Pick(r, []Val{VS("a,b"), VS("x"), VS("a,,b"), VS("ERR,1"), VS("a,b"), VI(65), VF(2.5), VB(true)})})
			}
			op.Input = v
		}
		for _, k := range ctxKeyVocab[:2] {
			if r.P(0.5) {
				op.Opts = append(op.Opts, OptSpec{K: "ctx", Key: k, Val: VS(k + "-v" + strconv.Itoa(r.Intn(3)))})
			}
		}
		dupCtx(r, &op)
		for i := range op.Opts {
			op.Opts[i].Shared = r.P(0.3)
		}
		if op.Kind == "parse" && root.Kind == "struct" && op.Input.K == "m" && r.P(0.3) {
			// a destination that has been used before: its slices already own storage (longer than what arrives now, filled with
			// other values). Parse builds the list anew - callbacks see this call's elements, absent members are zero.
			pre := VM()
			for _, f := range root.Fields {
				if f.N.Kind != "slice" {
					continue
				}
				for _, kv := range op.Input.M {
					if kv.K == f.Key && kv.V.K == "l" && len(kv.V.L) > 0 && len(kv.V.L) < 8 {
						l := VL()
						for k := 0; k <= len(kv.V.L); k++ {
							l.L = append(l.L, Sentinel(f.N.Elem))
						}
						pre.M = append(pre.M, KV{f.Key, l})
					}
				}
			}
			if len(pre.M) > 0 {
				op.Pre = &pre
			}
		}
		op.Rev = r.P(0.35)
		if r.P(0.1) {
			op.Reenter = 1 + r.Intn(5) // that callback validates something else with schemas of its own before it returns
		}
		ops = append(ops, op)
	}
	w.Tasks = [][]Op{ops}
	return w
}

func runC12(x *X) *Violation {
	w := x.W
	x.BuildSchemas()
	x.FreshRun("r/")
	for i := range w.Tasks[0] {
		op := &w.Tasks[0][i]
		if op.Kind != "parse" && op.Kind != "validate" {
			continue
		}
		n := x.Built[op.Schema].N
		res := x.Exec("0:"+strconv.Itoa(i), op)
		if res.Panic != "" {
			return &Violation{Class: "C12/panic mode=" + op.Kind, Detail: "call did not return: " + res.Panic}
		}
		if res.NestBad != "" {
			return &Violation{Class: "C12/nested-execution-wrong-result mode=" + op.Kind, Detail: res.NestBad}
		}
		if res.Nested > 0 {
			x.Probes["nested_executions"]++
		}
		if s := x.E.SentinelsChanged(); s != "" {
			return &Violation{Class: "C12/caller-owned-issue-modified mode=" + op.Kind, Detail: s + "; issues " + fmt.Sprint(res.PCTs())}
		}
		m := ModelFor(n, op, res)
		if m.Desync {
			x.Probes["model_desync"]++
			if len(m.Abstain) == 0 {
				// the library acts on the simulator's visit orders (calibrated, OrderControlled), yet the structs it visited in
				// this call are not the structs the schema and the input call for: some node was skipped or visited twice
				return &Violation{Class: "C12/struct-visits-differ-from-the-schema mode=" + op.Kind,
					Detail: fmt.Sprintf("the execution visited %d struct(s) (%v); the schema and input call for another sequence; issues %v",
						len(structVisits(res.Visits)), structVisits(res.Visits), res.PCTs())}
			}
		}
		if v := checkCallbacks("C12", n, op, res, m); v != nil {
			return v
		}
		if len(m.Abstain) == 0 && !m.Desync {
			// error-returning callbacks: exactly the modelled issues
			missing, spurious := matchIssues(res.Issues, m.Issues)
			for _, e := range missing {
				if e.Why == "pt" || e.Why == "pre" {
					return &Violation{Class: fmt.Sprintf("C12/callback-error-not-reported why=%s mode=%s", e.Why, op.Kind),
						Detail: fmt.Sprintf("expected an issue %s wrapping the callback's error; got %v", e.PCT(), res.PCTs())}
				}
			}
			if len(missing) == 0 && len(spurious) > 0 {
				s := spurious[0]
				if strings.Contains(s.Err, "pt-error") || strings.Contains(s.Msg, "pt-issue") || strings.Contains(s.Err, "pre:") || strings.Contains(s.Msg, "pre:") {
					return &Violation{Class: "C12/callback-error-reported-twice-or-misplaced mode=" + op.Kind,
						Detail: fmt.Sprintf("unexpected %s (err %q); want %v", s.PCT(), s.Err, m.PCTs())}
				}
			}
			// the issue of a failing PostTransform wraps its error
			for _, e := range m.Issues {
				if e.Why != "pt" || e.Code != "" {
					continue
				}
				found := false
				for _, a := range res.Issues {
					if a.Path == e.Path && strings.Contains(a.Err, fmt.Sprintf("pt-error n%d#%d", e.Node, e.Idx)) {
						found = true
					}
				}
				if !found {
					return &Violation{Class: "C12/posttransform-error-not-wrapped mode=" + op.Kind,
						Detail: fmt.Sprintf("no issue at %q wraps the error of PostTransform n%d#%d; issues: %v", e.Path, e.Node, e.Idx, res.Fulls())}
				}
			}
			x.Probes["model_compared"]++
		} else {
			x.Probes["model_abstained"]++
		}
		deep := 0
		for _, c := range res.Calls {
			if c.Node != 0 {
				deep++
			}
		}
		if deep >= 3 && len(m.Expect)+len(m.Forbid) > 0 {
			pt := false
			for _, e := range m.Expect {
				if e.Kind == "pt" {
					pt = true
				}
			}
			for _, e := range m.Forbid {
				if e.Kind == "pt" {
					pt = true
					x.Probes["posttransform_suppressed"]++
				}
			}
			if pt {
				x.NonTrivial = true
			}
		}
		for _, e := range m.Issues {
			if e.Why == "pt" {
				x.Probes["posttransform_error"]++
				x.Faults["cb_error"]++
			}
		}
	}
	return nil
}

// ---------------------------------------------------------------------------
// C04 – Required, Optional and Default decide what an absent value means

func init() {
	Register(&Scenario{ID: "C04", Gen: genC04, Run: runC04,
		Rule: "a world places one node under test (every node kind x Required/Optional/Default/NotNil, with a recording test) at top level, as a struct field among catching/failing siblings, as a slice element, behind a pointer " +
			"or inside a struct inside a slice, and feeds it every absent-looking and present-but-falsy input class in both modes with the destination pre-filled with sentinels; checked against the decision table of the statement: " +
			"issues exactly (one required/not_nil), recording test invoked or not, sentinel untouched, default applied and tested; non-trivial iff the node under test received an absent-class or falsy-class input at depth >=1; " +
			"distinct by hash of (schema, inputs, decision vectors)"})
}

func Sentinel(n *Node) Val {
	switch n.Kind {
	case "string":
		return VS("SENTINEL")
	case "int":
		return VI(777)
	case "float":
		return VF(77.5)
	case "bool":
		return VB(true)
	case "time":
		return VT("2001-02-03T04:05:06Z")
	case "custom":
		if n.CT == "int" {
			return VI(777)
		}
		return VS("SENTINEL")
	case "slice":
		return VL(Sentinel(n.Elem))
	case "ptr", "pre":
		return Sentinel(n.Elem)
	case "struct":
		m := VM()
		for _, f := range n.Fields {
			m.M = append(m.M, KV{f.Key, Sentinel(f.N)})
		}
		return m
	}
	return VNil()
}

// present although they look like nothing: zeros, and strings of characters that are invisible but not white space
var falsyForms = []Val{VI(0), VB(false), VS("0"), VS("false"), VT("0001-01-01T00:00:00Z"), VF(0),
	VS("\u200b"), VS("\ufeff"), VS("\x00"), VS("\x1b"), VS(" \u200d\t"), VS("\u2060")}

func genC04(r *Rng, tier string) *World {
	w := &World{Prop: "C04", Cfg: DrawDecCfg(r)}
	c := DrawGenCfg(r, "parse")
	c.PTags = 0
	c.PPT = 0
	c.without("pre")
	if len(c.Kinds) == 0 {
		c.Kinds = []string{"string"}
	}
	kind := Pick(r, []string{"string", "int", "float", "bool", "time", "slice", "ptr", "struct", "custom"})
	cn := c
	cn.PCatch = 0
	cn.MaxDepth = 3
	N := genKind(r, &cn, kind, 2)
	N.Catch = nil
	if kind != "struct" && kind != "custom" {
		N.Req = r.P(0.5)
	}
	if N.IsPrim() {
		if r.P(0.5) {
			v := genTyped(r, kind)
			N.Def = &v
		} else {
			N.Def = nil
		}
		N.Tests = append(N.Tests, TestSpec{T: "custom", Mod: 0, Code: "rec"})
	}
	if kind == "slice" {
		N.Tests = append(N.Tests, TestSpec{T: "custom", Mod: 0, Code: "rec"})
	}
	mode := "parse"
	if r.P(0.4) {
		mode = "validate"
	}
	// input class for N
	var inN Val
	missing := false
	class := r.Intn(4)
	if mode == "parse" {
		switch class {
		case 0:
			missing = true
		case 1:
			inN = Pick(r, absentForms)
		case 2:
			inN = Pick(r, falsyForms)
			if kind == "slice" && N.Elem.IsPrim() && N.Elem.Kind != "time" && r.P(0.5) {
				inN = Pick(r, []Val{{K: "tl", S: N.Elem.Kind, B: true}, VL()}) // typed nil / empty list: present
			}
			if in := N; kind == "struct" || kind == "ptr" {
				for in.Kind == "ptr" {
					in = in.Elem
				}
				if in.Kind == "struct" && r.P(0.6) {
					inN = VM() // `{}`: a present record (its members are what is missing)
				}
			}
		default:
			inN, missing = GenParseInput(r, &GenCfg{MaxElems: 2, PValid: 0.7, MaxDepth: 3, MaxFields: 3}, N)
		}
	} else {
		switch class {
		case 0, 1:
			inN = VNil() // zero value
			if kind == "slice" && r.P(0.5) {
				inN = VL()
			}
		default:
			inN = GenValidateInput(r, &GenCfg{MaxElems: 2, PValid: 0.7, PAbsent: 0.2}, N, false)
			if kind == "time" && r.P(0.3) {
				// the zero instant carried in another zone is not the Go zero value: present
				inN = VT("0001-01-01T02:00:00+02:00")
			}
		}
	}
	placement := r.Intn(5)
	var root *Node
	var input Val
	sib := func() (*Field, KV, bool) {
		k := Pick(r, []string{"s1", "s2", "s3"})
		cs := c
		cs.PCatch = 0.5
		cs.MaxDepth = 3
		n := GenNode(r, &cs, 2, false)
		f := &Field{Key: k, N: n}
		if mode == "parse" {
			v, miss := GenParseInput(r, &cs, n)
			return f, KV{k, v}, miss
		}
		return f, KV{k, GenValidateInput(r, &cs, n, false)}, false
	}
	switch placement {
	case 0:
		root, input = N, inN
		if missing {
			input = VNil()
		}
	case 1:
		root = &Node{Kind: "struct"}
		input = VM()
		used := map[string]bool{}
		for i := 0; i < 1+r.Intn(3); i++ {
			f, kv, miss := sib()
			if used[f.Key] {
				continue
			}
			used[f.Key] = true
			root.Fields = append(root.Fields, f)
			if !miss {
				input.M = append(input.M, kv)
			}
		}
		root.Fields = append(root.Fields, &Field{Key: "n", N: N})
		if !missing {
			input.M = append(input.M, KV{"n", inN})
		}
	case 2:
		root = &Node{Kind: "struct", Fields: []*Field{{Key: "l", N: &Node{Kind: "slice", Elem: N}}}}
		l := VL()
		if missing {
			l.L = append(l.L, VNil())
		} else {
			l.L = append(l.L, inN)
		}
		if r.P(0.5) {
			if mode == "parse" {
				v, _ := GenParseInput(r, &GenCfg{MaxElems: 2, PValid: 0.8, MaxDepth: 3, MaxFields: 3}, N)
				l.L = append(l.L, v)
			} else {
				l.L = append(l.L, GenValidateInput(r, &GenCfg{MaxElems: 2, PValid: 0.8}, N, false))
			}
		}
		input = VM(KV{"l", l})
	case 3:
		pe := N
		if kind == "string" && mode == "parse" && r.P(0.3) {
			// Ptr(Preprocess(fn, N)): what N receives is what fn returns - a present "n/a" arrives as an absent ""
			pe = &Node{Kind: "pre", CT: "any_str", Elem: N}
			if !missing && class == 1 && r.P(0.6) {
				inN = VS("n/a")
			}
		}
		root = &Node{Kind: "struct", Fields: []*Field{{Key: "p", N: &Node{Kind: "ptr", Req: r.P(0.4), Elem: pe}}}}
		input = VM()
		if !missing {
			input.M = append(input.M, KV{"p", inN})
		}
	default:
		f, kv, miss := sib()
		inner := &Node{Kind: "struct", Fields: []*Field{{Key: "n", N: N}, f}}
		root = &Node{Kind: "struct", Fields: []*Field{{Key: "l", N: &Node{Kind: "slice", Elem: inner}}}}
		rec := VM()
		if !missing {
			rec.M = append(rec.M, KV{"n", inN})
		}
		if !miss {
			rec.M = append(rec.M, kv)
		}
		input = VM(KV{"l", VL(rec)})
	}
	front := ""
	if mode == "parse" && root.Kind == "struct" && r.P(0.15) {
		// the record handed over as Go struct values (fields found by name: keys spelled like exported fields)
		front = "gostruct"
		input = capitalKeys(root, input)
	}
	w.Schemas = []*Node{root}
	op := Op{Kind: mode, Schema: 0, Input: input, Front: front}
	if mode == "parse" {
		s := Sentinel(root)
		op.Pre = &s
	}
	// one warm-up call so that pools are populated
	warm := Op{Kind: mode, Schema: 0, Input: input, Front: front}
	w.Tasks = [][]Op{{warm, op}}
	w.Params = map[string]int{"placement": placement, "class": class}
	return w
}

func runC04(x *X) *Violation {
	w := x.W
	x.BuildSchemas()
	x.FreshRun("r/")
	for i := range w.Tasks[0] {
		op := &w.Tasks[0][i]
		if op.Kind != "parse" && op.Kind != "validate" {
			continue
		}
		root := x.Built[op.Schema].N
		res := x.Exec("0:"+strconv.Itoa(i), op)
		if res.Panic != "" {
			return &Violation{Class: "C04/panic mode=" + op.Kind, Detail: "call did not return: " + res.Panic}
		}
		m := ModelFor(root, op, res)
		if m.Desync && len(m.Abstain) == 0 {
			// the records the execution walked are not the records the schema and this input call for: a present record
			// was treated as absent (or an absent one as present)
			return &Violation{Class: "C04/struct-visits-differ-from-the-schema mode=" + op.Kind,
				Detail: fmt.Sprintf("the execution visited %d struct(s) (%v); the schema and input call for another sequence; issues %v",
					len(structVisits(res.Visits)), structVisits(res.Visits), res.PCTs())}
		}
		if len(m.Abstain) > 0 {
			x.Probes["model_abstained"]++
			continue
		}
		// (1) exactly the required / not_nil issues the table demands
		var act []IssueRec
		for _, a := range res.Issues {
			if a.Code == "required" || a.Code == "not_nil" {
				act = append(act, a)
			}
		}
		var exp []MIssue
		for _, e := range m.Issues {
			if e.Why == "required" {
				exp = append(exp, e)
			}
		}
		missing, spurious := matchIssues(act, exp)
		if len(missing) > 0 {
			e := missing[0]
			return &Violation{Class: fmt.Sprintf("C04/required-issue-missing kind=%s mode=%s", nodeByID(root, e.Node).Kind, op.Kind),
				Detail: fmt.Sprintf("absent required node: expected exactly one %s; got %v", e.PCT(), res.PCTs())}
		}
		if len(spurious) > 0 {
			s := spurious[0]
			return &Violation{Class: fmt.Sprintf("C04/required-issue-unexpected code=%s type=%s mode=%s", s.Code, s.Type, op.Kind),
				Detail: fmt.Sprintf("unexpected %s (value present, optional, defaulted or already reported); got %v want %v", s.PCT(), res.PCTs(), m.PCTs())}
		}
		// (2) tests do not run on skipped nodes, do run on defaulted ones
		if v := checkCallbacks("C04", root, op, res, m); v != nil {
			return v
		}
		// (3) destination written or not
		var insts []inst
		instances(root, res.destPtr.Elem(), "", &insts)
		at := map[string]reflect.Value{}
		for _, in := range insts {
			at[in.path+"#"+strconv.Itoa(in.n.ID)] = in.v
		}
		for _, mn := range m.Nodes {
			v, ok := at[mn.Path+"#"+strconv.Itoa(mn.N.ID)]
			if !ok {
				continue
			}
			if mn.Skipped && (mn.N.IsPrim() || mn.N.Kind == "slice" || mn.N.Kind == "ptr") {
				var want string
				switch {
				case op.Kind == "validate":
					continue // the value is the input itself; compared below through Dest
				case strings.Contains(mn.Path, "[") || op.Pre == nil:
					want = CanonV(reflect.Zero(v.Type()))
				default:
					want = CanonV(Populate(v.Type(), Sentinel(mn.N)))
				}
				if got := CanonV(v); got != want {
					return &Violation{Class: fmt.Sprintf("C04/skipped-node-destination-written kind=%s mode=%s", mn.N.Kind, op.Kind),
						Detail: fmt.Sprintf("absent optional node at %q: destination is %s, was %s before the call", mn.Path, got, want)}
				}
				x.Probes["skipped_checked"]++
			}
			if mn.Default && mn.N.IsPrim() && mn.HasVal {
				if got := Canon(destToModel(mn.N, v)); got != Canon(mn.Val) {
					return &Violation{Class: fmt.Sprintf("C04/default-not-applied kind=%s mode=%s", mn.N.Kind, op.Kind),
						Detail: fmt.Sprintf("absent node with Default at %q holds %s, want %s", mn.Path, got, Canon(mn.Val))}
				}
				x.Probes["default_applied"]++
			}
			if mn.Default && mn.N.Kind == "slice" && mn.HasVal && v.Len() != len(mn.N.Def.L) {
				return &Violation{Class: "C04/default-not-applied kind=slice mode=" + op.Kind,
					Detail: fmt.Sprintf("absent slice with Default at %q has %d elements, default has %d", mn.Path, v.Len(), len(mn.N.Def.L))}
			}
		}
		// default values are tested like any other value; present values never yield `required`: full issue comparison
		if v, _ := checkC02(root, op, res); v != nil {
			v.Class = "C04/" + strings.TrimPrefix(v.Class, "C02/")
			return v
		}
		x.Probes["model_compared"]++
		if w.P("placement") > 0 && w.P("class") <= 2 {
			x.NonTrivial = true
		}
	}
	return nil
}

// capitalKeys spells every schema key of the tree (and of the record) like an exported Go field.
func capitalKeys(n *Node, v Val) Val {
	out := capitalRecord(n, v)
	n.Walk(func(m *Node) {
		for _, f := range m.Fields {
			f.Key = GoName(f.Key)
		}
	})
	return out
}

func capitalRecord(n *Node, v Val) Val {
	switch n.Kind {
	case "struct":
		if v.K != "m" {
			return v
		}
		out := VM()
		for _, kv := range v.M {
			var sub *Node
			for _, f := range n.Fields {
				if f.Key == kv.K {
					sub = f.N
				}
			}
			if sub != nil {
				out.M = append(out.M, KV{GoName(kv.K), capitalRecord(sub, kv.V)})
			} else {
				out.M = append(out.M, kv)
			}
		}
		return out
	case "slice":
		if v.K != "l" {
			return v
		}
		out := VL()
		for _, e := range v.L {
			out.L = append(out.L, capitalRecord(n.Elem, e))
		}
		return out
	case "ptr", "pre":
		return capitalRecord(n.Elem, v)
	}
	return v
}
