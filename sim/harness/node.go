package harness

import (
	"errors"
	"fmt"
	"reflect"
	"regexp"
	"strings"
	"time"

	z "github.com/Oudwins/zog"
	"github.com/Oudwins/zog/conf"
)

// ---------------------------------------------------------------------------
// Schema AST (plain data; everything a world needs to rebuild a zog schema,
// its destination type and its model twin).

type TestSpec struct {
	T        string  `json:"t"`
	N        int64   `json:"n,omitempty"`
	F        float64 `json:"f,omitempty"`
	S        string  `json:"s,omitempty"`
	L        []Val   `json:"l,omitempty"`
	Not      bool    `json:"not,omitempty"`
	Msg      string  `json:"msg,omitempty"`  // z.Message
	Code     string  `json:"code,omitempty"` // z.IssueCode
	Path     string  `json:"path,omitempty"` // z.IssuePath
	Mod      int64   `json:"mod,omitempty"`  // custom: passes iff fnv(canon(value))%Mod != Rem; Mod==0 always passes
	Rem      int64   `json:"rem,omitempty"`
	MsgFn    bool    `json:"msgfn,omitempty"`    // z.MessageFunc setting "MF:<code>"
	Params   []KV    `json:"params,omitempty"`   // z.Params(...) replaces the test's params
	Twice    bool    `json:"twice,omitempty"`    // TFunc: a failing invocation reports two issues
	Edited   bool    `json:"edited,omitempty"`   // Reusable, and the options were applied to a copy of the Test value after construction
	Reusable bool    `json:"reusable,omitempty"` // custom test built with z.TestFunc(code, fn, opts...) and added with schema.Test(t)
	TFunc    bool    `json:"tfunc,omitempty"`    // custom test written as z.Test{Func: func(val, ctx)} that adds its own issue via ctx.AddIssue(ctx.Issue()...)
}

type PTSpec struct {
	Err    string `json:"err,omitempty"`    // "" | "err" | "issue" | "wrapped" | "sentinel" | "byhand"
	Mutate string `json:"mutate,omitempty"` // "" | "elem0" | "append" | "upper" | "inc"
}

type Field struct {
	Key  string `json:"key"`
	Tags []KV   `json:"tags,omitempty"` // tag name -> value (V.S)
	N    *Node  `json:"n"`
}

type Node struct {
	Kind    string     `json:"kind"` // string int float bool time struct slice ptr custom pre
	Req     bool       `json:"req,omitempty"`
	Def     *Val       `json:"def,omitempty"`
	Catch   *Val       `json:"catch,omitempty"`
	Tests   []TestSpec `json:"tests,omitempty"`
	PTs     []PTSpec   `json:"pts,omitempty"`
	Fields  []*Field   `json:"fields,omitempty"`
	Elem    *Node      `json:"elem,omitempty"`
	CT      string     `json:"ct,omitempty"`       // custom: "string"|"int"; pre: "any_str"|"str_list"|"rec_pass"
	ReqOpt  *TestSpec  `json:"req_opt,omitempty"`  // options passed to Required()/NotNil(): Msg, Code, Path
	Extra   bool       `json:"extra,omitempty"`    // struct: the destination type has two more fields than the schema describes
	Embed   bool       `json:"embed,omitempty"`    // struct: the destination type embeds a struct whose fields are shadowed by the first two schema fields
	OptCall bool       `json:"opt_call,omitempty"` // optional node built as .Required().Optional()
	W       string     `json:"w,omitempty"`        // width variant: int -> "64" (Int64 / int64), float -> "32" (Float32 / float32)
	Coercer string     `json:"coercer,omitempty"`  // z.WithCoercer on a primitive: "const" (always CoVal) | "fail" (always an error)
	CoVal   *Val       `json:"co_val,omitempty"`
	ID      int        `json:"-"`
}

func (n *Node) Clone() *Node {
	if n == nil {
		return nil
	}
	c := *n
	if n.Def != nil {
		d := n.Def.Clone()
		c.Def = &d
	}
	if n.Catch != nil {
		d := n.Catch.Clone()
		c.Catch = &d
	}
	c.Tests = append([]TestSpec(nil), n.Tests...)
	for i := range c.Tests {
		if c.Tests[i].L != nil {
			l := make([]Val, len(c.Tests[i].L))
			for j := range l {
				l[j] = c.Tests[i].L[j].Clone()
			}
			c.Tests[i].L = l
		}
	}
	c.PTs = append([]PTSpec(nil), n.PTs...)
	if n.ReqOpt != nil {
		ro := *n.ReqOpt
		c.ReqOpt = &ro
	}
	if n.CoVal != nil {
		cv := n.CoVal.Clone()
		c.CoVal = &cv
	}
	c.Fields = nil
	for _, f := range n.Fields {
		nf := &Field{Key: f.Key, Tags: append([]KV(nil), f.Tags...), N: f.N.Clone()}
		c.Fields = append(c.Fields, nf)
	}
	c.Elem = n.Elem.Clone()
	return &c
}

// Number assigns pre-order ids.
func (n *Node) Number(next *int) {
	if n == nil {
		return
	}
	n.ID = *next
	*next++
	for _, f := range n.Fields {
		f.N.Number(next)
	}
	n.Elem.Number(next)
}

func (n *Node) Walk(fn func(*Node)) {
	if n == nil {
		return
	}
	fn(n)
	for _, f := range n.Fields {
		f.N.Walk(fn)
	}
	n.Elem.Walk(fn)
}

func (n *Node) IsPrim() bool {
	switch n.Kind {
	case "string", "int", "float", "bool", "time":
		return true
	}
	return false
}

// ZType is the documented zog type string of the node.
func (n *Node) ZType() string {
	switch n.Kind {
	case "string":
		return "string"
	case "int", "float":
		return "number"
	case "bool":
		return "bool"
	case "time":
		return "time"
	case "struct":
		return "struct"
	case "slice":
		return "slice"
	case "custom":
		return "custom"
	case "ptr", "pre":
		return n.Elem.ZType()
	}
	return "?"
}

func GoName(key string) string {
	if key == "" {
		return key
	}
	if key[0] >= 'a' && key[0] <= 'z' {
		return string(key[0]-32) + key[1:]
	}
	return key
}

func (f *Field) Tag(name string) (string, bool) {
	for _, kv := range f.Tags {
		if kv.K == name {
			return kv.V.S, true
		}
	}
	return "", false
}

// ---------------------------------------------------------------------------
// Destination types

// TypeOfRev is TypeOf with the fields of every struct declared in reverse
// order: another destination type that matches the schema equally well.
func TypeOfRev(n *Node) reflect.Type { return typeOf(n, true) }

func TypeOf(n *Node) reflect.Type { return typeOf(n, false) }

func typeOf(n *Node, rev bool) reflect.Type {
	switch n.Kind {
	case "string":
		if n.W == "named" {
			return reflect.TypeOf(NamedStr(""))
		}
		return reflect.TypeOf("")
	case "int":
		if n.W == "64" {
			return reflect.TypeOf(int64(0))
		}
		if n.W == "32" {
			return reflect.TypeOf(int32(0))
		}
		return reflect.TypeOf(int(0))
	case "float":
		if n.W == "32" {
			return reflect.TypeOf(float32(0))
		}
		return reflect.TypeOf(float64(0))
	case "bool":
		return reflect.TypeOf(false)
	case "time":
		return timeType
	case "slice":
		if n.W == "named" {
			return reflect.TypeOf(NamedStrList(nil)) // a user-defined list type; a Default for it may well be written as a plain []string
		}
		return reflect.SliceOf(typeOf(n.Elem, rev))
	case "ptr":
		return reflect.PointerTo(typeOf(n.Elem, rev))
	case "custom":
		if n.CT == "int" {
			return reflect.TypeOf(int(0))
		}
		return reflect.TypeOf("")
	case "pre":
		return typeOf(n.Elem, rev)
	case "struct":
		fs := make([]reflect.StructField, 0, len(n.Fields))
		for _, f := range n.Fields {
			var tag strings.Builder
			for i, kv := range f.Tags {
				if i > 0 {
					tag.WriteString(" ")
				}
				fmt.Fprintf(&tag, "%s:%q", kv.K, kv.V.S)
			}
			fs = append(fs, reflect.StructField{Name: GoName(f.Key), Type: typeOf(f.N, rev), Tag: reflect.StructTag(tag.String())})
		}
		if n.Embed && len(fs) > 0 {
			// Go's rule: the shallowest field of a name is the field of that name. The embedded struct comes first and holds
			// fields with the names (and other zog tags) of the first two schema fields: they are hidden, and none of the library's business
			var in []reflect.StructField
			for i := 0; i < len(fs) && i < 2; i++ {
				in = append(in, reflect.StructField{Name: fs[i].Name, Type: fs[i].Type, Tag: reflect.StructTag(fmt.Sprintf(`zog:"zz_hidden_%d"`, i))})
			}
			in = append(in, reflect.StructField{Name: "ZzAuditID", Type: reflect.TypeOf(int(0))})
			fs = append([]reflect.StructField{{Name: "ZzEmbedded", Type: reflect.StructOf(in), Anonymous: true}}, fs...)
		}
		if n.Extra {
			// the destination may have fields the schema does not describe: they are none of the library's business
			fs = append(fs, reflect.StructField{Name: "ZzNotInSchema", Type: reflect.TypeOf(map[string]int(nil))},
				reflect.StructField{Name: "ZzAlsoNot", Type: reflect.TypeOf((*int)(nil))})
		}
		if rev {
			for i, j := 0, len(fs)-1; i < j; i, j = i+1, j-1 {
				fs[i], fs[j] = fs[j], fs[i]
			}
		}
		return reflect.StructOf(fs)
	}
	panic("harness: TypeOf: bad kind " + n.Kind)
}

// Populate builds a Go value of type t from v (used for Validate inputs,
// defaults, catch values and sentinels). Missing map keys leave zero values.
func Populate(t reflect.Type, v Val) reflect.Value {
	out := reflect.New(t).Elem()
	populate(out, v)
	return out
}

func populate(dst reflect.Value, v Val) {
	if v.IsNil() {
		return
	}
	t := dst.Type()
	if t == timeType {
		if v.K == "t" {
			dst.Set(reflect.ValueOf(MustTime(v.S)))
		}
		return
	}
	switch t.Kind() {
	case reflect.String:
		if v.K == "s" {
			dst.SetString(v.S)
		}
	case reflect.Int, reflect.Int64, reflect.Int32:
		if v.K == "i" {
			dst.SetInt(v.I)
		}
	case reflect.Float64, reflect.Float32:
		if v.K == "f" {
			dst.SetFloat(v.Fl())
		} else if v.K == "i" {
			dst.SetFloat(float64(v.I))
		}
	case reflect.Bool:
		if v.K == "b" {
			dst.SetBool(v.B)
		}
	case reflect.Slice:
		if v.K == "l" {
			s := reflect.MakeSlice(t, len(v.L), len(v.L))
			for i := range v.L {
				populate(s.Index(i), v.L[i])
			}
			dst.Set(s)
		}
	case reflect.Pointer:
		p := reflect.New(t.Elem())
		populate(p.Elem(), v)
		dst.Set(p)
	case reflect.Struct:
		if v.K == "m" {
			for i := 0; i < t.NumField(); i++ {
				// keyed by Go field name or its lower-first form
				name := t.Field(i).Name
				if fv, ok := v.Get(name); ok {
					populate(dst.Field(i), fv)
				} else if fv, ok := v.Get(strings.ToLower(name[:1]) + name[1:]); ok {
					populate(dst.Field(i), fv)
				}
			}
		}
	}
}

// ---------------------------------------------------------------------------
// Recording callbacks

type Call struct {
	Node   int      `json:"node"`
	Kind   string   `json:"kind"` // test pt custom pre fmt
	Idx    int      `json:"idx"`
	ArgT   string   `json:"argt"`
	Arg    string   `json:"arg"`
	Addr   int      `json:"addr"` // 1: arg is the address of an instance of the node's destination, 0: not, -1: n/a
	Gets   []string `json:"gets,omitempty"`
	Issues int      `json:"issues"` // issues the execution formatter had seen before this call (not used for verdicts that need the model)
}

// OpRec is the per-operation recorder callbacks write to.
type OpRec struct {
	Calls    []Call
	Root     reflect.Value // pointer to the destination root
	RootNode *Node
	CtxKeys  []string
	CbCount  int
	PanicAt  int // 1-based index of the callback invocation that panics (0: never)
	ErrAt    int // 1-based index of the error-capable callback invocation that fails (0: never)
	ErrCount int
	FmtSeen  []string // issues observed by the execution-level formatter, in order: "path|code"
	Injected []string
	Validate bool
	LastCtx  z.Ctx  // the context the last callback of this operation was handed
	Reenter  int    // 1-based index of the callback invocation that runs nested executions (0: never)
	Nested   int    // nested executions run
	NestBad  string // a nested execution did not return what it returns on its own
}

type injectedPanic struct{ msg string }

var errInjected = errors.New("injected callback error")

// Engine owns the callback environment shared by all schemas of a world.
type Engine struct {
	Cur   func() *OpRec // recorder of the operation the running task is in
	yield func(string)
	Owned []Owned // harness-side handles on values handed to the schema (defaults, OneOf lists, ...)
	// long-lived issues of the caller ("errors as values": var errTaken = &z.ZogIssue{...}) that callbacks return again
	// and again; they are complete (code, message, type), so the library has nothing to add to them - and they stay the caller's
	Sentinels []*OwnedIssue
	innerStr  *z.StringSchema[string]
	innerList *z.SliceSchema
}

type OwnedIssue struct {
	Iss  *z.ZogIssue
	Orig string
	Node int
}

func (e *Engine) sentinel(n *Node, idx int) *z.ZogIssue {
	iss := &z.ZogIssue{Code: "pt_sentinel", Message: fmt.Sprintf("pt-sentinel n%d#%d", n.ID, idx), Dtype: "string"}
	e.Sentinels = append(e.Sentinels, &OwnedIssue{Iss: iss, Orig: fmt.Sprintf("%+v", *iss), Node: n.ID})
	return iss
}

// nested runs, from inside a callback of a running execution, two complete executions of small schemas of its own (a
// test that validates a related value with another schema is ordinary use). They take and return pool objects while the
// outer execution holds its own; they must return what they return on their own, and the outer execution must not notice.
func (e *Engine) nested(rec *OpRec) {
	if e.innerStr == nil {
		e.innerStr = z.String().Min(3)
		e.innerList = z.Slice(z.Int().GT(5))
	}
	rec.Nested++
	var s string
	l := e.innerStr.Parse("ab", &s)
	var xs []int
	m := e.innerList.Parse([]any{1, 9, 2}, &xs)
	r1, r2 := &Result{}, &Result{}
	r1.fill(l)
	r2.fill(m)
	got := fmt.Sprintf("%v dest=%q | %v dest=%v", r1.PCTs(), s, r2.PCTs(), xs)
	const want = `[|min|string] dest="ab" | [[0]|gt|number [2]|gt|number] dest=[1 9 2]`
	if got != want && rec.NestBad == "" {
		rec.NestBad = fmt.Sprintf("nested executions returned %s, on their own they return %s", got, want)
	}
	if rec.Reenter%2 == 0 {
		// ... and hands its results back before the outer execution continues
		collectRaw("CollectList", l)
		collectRaw("CollectMap", m)
	}
}

// SentinelsChanged reports the first caller-owned issue that no longer is what the caller made it.
func (e *Engine) SentinelsChanged() string {
	for _, s := range e.Sentinels {
		if now := fmt.Sprintf("%+v", *s.Iss); now != s.Orig {
			return fmt.Sprintf("the issue object a callback of node %d returns was %s and now is %s", s.Node, s.Orig, now)
		}
	}
	return ""
}

// Owned is a value the schema was given at construction. Slices share their
// backing array with what the schema holds, so a write through the schema is
// visible here.
type Owned struct {
	What string
	Node int
	V    any
}

func (e *Engine) own(what string, n *Node, v any) any {
	e.Owned = append(e.Owned, Owned{what, n.ID, v})
	return v
}

func derefAll(x any) any {
	v := reflect.ValueOf(x)
	for v.IsValid() && v.Kind() == reflect.Pointer && !v.IsNil() {
		v = v.Elem()
	}
	if !v.IsValid() || !v.CanInterface() {
		return x
	}
	return v.Interface()
}

func fnv64(s string) uint64 {
	h := uint64(1469598103934665603)
	for i := 0; i < len(s); i++ {
		h ^= uint64(s[i])
		h *= 1099511628211
	}
	return h
}

// CustomPass is the independent predicate of a generated custom test.
func CustomPass(t TestSpec, val any) bool {
	if t.Mod <= 0 {
		return true
	}
	return int64(fnv64(scrubAddr(Canon(derefAll(val))))%uint64(t.Mod)) != t.Rem
}

func (e *Engine) record(n *Node, kind string, idx int, arg any, ctx z.Ctx, wantAddr bool) *OpRec {
	if e.yield != nil {
		e.yield("cb")
	}
	rec := e.Cur()
	if rec == nil {
		return nil
	}
	c := Call{Node: n.ID, Kind: kind, Idx: idx, ArgT: fmt.Sprintf("%T", arg), Arg: scrubAddr(Canon(derefAll(arg))), Addr: -1}
	if wantAddr {
		c.Addr = 0
		rv := reflect.ValueOf(arg)
		if rv.IsValid() && rv.Kind() == reflect.Pointer && !rv.IsNil() && rec.Root.IsValid() {
			for _, p := range instanceAddrs(rec.RootNode, rec.Root, n) {
				if p == rv.Pointer() {
					c.Addr = 1
					break
				}
			}
		}
	}
	if ctx != nil {
		rec.LastCtx = ctx
		for _, k := range rec.CtxKeys {
			c.Gets = append(c.Gets, k+"="+Canon(ctx.Get(k)))
		}
	}
	c.Issues = len(rec.FmtSeen)
	rec.Calls = append(rec.Calls, c)
	rec.CbCount++
	if rec.Reenter > 0 && rec.CbCount == rec.Reenter {
		e.nested(rec)
	}
	if rec.PanicAt > 0 && rec.CbCount == rec.PanicAt {
		rec.Injected = append(rec.Injected, "cb_panic")
		panic(injectedPanic{"injected callback panic"})
	}
	return rec
}

// instanceAddrs returns the addresses of every instance of target's
// destination reachable from root (a pointer to the destination of rootNode).
func instanceAddrs(rootNode *Node, root reflect.Value, target *Node) []uintptr {
	var out []uintptr
	var walk func(n *Node, ptr reflect.Value)
	walk = func(n *Node, ptr reflect.Value) {
		if !ptr.IsValid() || ptr.Kind() != reflect.Pointer || ptr.IsNil() {
			return
		}
		if n == target {
			out = append(out, ptr.Pointer())
			return
		}
		v := ptr.Elem()
		switch n.Kind {
		case "struct":
			if v.Kind() != reflect.Struct {
				return
			}
			for _, f := range n.Fields {
				fv := v.FieldByName(GoName(f.Key))
				if fv.IsValid() && fv.CanAddr() {
					walk(f.N, fv.Addr())
				}
			}
		case "slice":
			if v.Kind() != reflect.Slice {
				return
			}
			for i := 0; i < v.Len(); i++ {
				walk(n.Elem, v.Index(i).Addr())
			}
		case "ptr":
			if v.Kind() == reflect.Pointer {
				walk(n.Elem, v)
			}
		case "pre":
			walk(n.Elem, ptr)
		}
	}
	walk(rootNode, root)
	return out
}

// ---------------------------------------------------------------------------
// Building the zog schema

func testOpts(t TestSpec) []z.TestOption {
	var o []z.TestOption
	if t.Msg != "" {
		o = append(o, z.Message(t.Msg))
	}
	if t.Code != "" {
		o = append(o, z.IssueCode(t.Code))
	}
	if t.Path != "" {
		o = append(o, z.IssuePath(t.Path))
	}
	if t.MsgFn {
		o = append(o, z.MessageFunc(func(e *z.ZogIssue, c z.Ctx) { e.SetMessage("MF:" + e.Code) }))
	}
	if len(t.Params) > 0 {
		m := map[string]any{}
		for _, kv := range t.Params {
			m[kv.K] = kv.V.ToGo()
		}
		if paramsOwner != nil {
			paramsOwner(m)
		}
		o = append(o, z.Params(m))
	}
	return o
}

// paramsOwner, when set, is told about every map handed to z.Params (the caller still owns that map).
var paramsOwner func(map[string]any)

func reqOpts(n *Node) []z.TestOption {
	if n.ReqOpt == nil {
		return nil
	}
	return testOpts(*n.ReqOpt)
}

func (e *Engine) customFn(n *Node, idx int, t TestSpec, wantAddr bool) z.BoolTFunc {
	return func(val any, ctx z.Ctx) bool {
		e.record(n, "test", idx, val, ctx, wantAddr)
		return CustomPass(t, val)
	}
}

// tfuncTest is the "complex custom test" flavour of the documentation: the function receives the value and the
// context and reports failures itself.
func (e *Engine) tfuncTest(n *Node, idx int, t TestSpec) z.Test {
	return z.Test{IssueCode: t.Code, Func: func(val any, ctx z.Ctx) {
		e.record(n, "test", idx, val, ctx, false)
		if !CustomPass(t, val) {
			ctx.AddIssue(ctx.Issue().SetCode(t.Code).SetMessage("TF:" + t.Code))
			if t.Twice {
				// a test that checks several rules may report more than one of them
				ctx.AddIssue(ctx.Issue().SetCode(t.Code + "_second_rule").SetMessage("TF:" + t.Code + " (second rule)"))
			}
		}
	}}
}

func (e *Engine) postTransform(n *Node, idx int, p PTSpec) z.PostTransform {
	var sentinel *z.ZogIssue
	if p.Err == "sentinel" {
		sentinel = e.sentinel(n, idx)
	}
	return func(ptr any, ctx z.Ctx) error {
		rec := e.record(n, "pt", idx, ptr, ctx, true)
		mutate(p.Mutate, ptr)
		if rec != nil {
			rec.ErrCount++
			if rec.ErrAt > 0 && rec.ErrCount == rec.ErrAt {
				rec.Injected = append(rec.Injected, "cb_error")
				return errInjected
			}
		}
		switch p.Err {
		case "err":
			return fmt.Errorf("pt-error n%d#%d", n.ID, idx)
		case "issue":
			return (&z.ZogIssue{}).SetCode("pt_issue").SetMessage(fmt.Sprintf("pt-issue n%d#%d", n.ID, idx))
		case "sentinel":
			return sentinel
		case "byhand":
			// a transform may also report by hand and return nil: the issue is one of its node (ctx.Issue() is pre-filled with
			// the node's path and type); on a catching node the report would be the node's own failure, so none is made there
			if n.Catch == nil {
				ctx.AddIssue(ctx.Issue().SetCode("pt_byhand").SetMessage(fmt.Sprintf("pt-byhand n%d#%d", n.ID, idx)))
			}
			return nil
		case "wrapped":
			// an ordinary error that merely has a ZogIssue somewhere in its chain is still an ordinary error
			inner := (&z.ZogIssue{}).SetCode("inner_issue").SetPath("elsewhere").SetMessage("inner")
			return fmt.Errorf("pt-error n%d#%d: %w", n.ID, idx, inner)
		}
		return nil
	}
}

// mutate changes the destination a PostTransform was given, in place (C19).
func mutate(how string, ptr any) {
	if how == "" {
		return
	}
	v := reflect.ValueOf(ptr)
	if v.Kind() != reflect.Pointer || v.IsNil() {
		return
	}
	v = v.Elem()
	switch how {
	case "elem0":
		if v.Kind() == reflect.Slice && v.Len() > 0 {
			mutLeaf(v.Index(0))
		}
	case "append":
		if v.Kind() == reflect.Slice {
			v.Set(reflect.Append(v, reflect.Zero(v.Type().Elem())))
			mutLeaf(v.Index(v.Len() - 1))
		}
	case "leaf":
		mutLeaf(v)
	}
}

func mutLeaf(v reflect.Value) {
	switch v.Kind() {
	case reflect.String:
		v.SetString(v.String() + "!")
	case reflect.Int, reflect.Int64:
		v.SetInt(v.Int() + 1000)
	case reflect.Float64:
		v.SetFloat(v.Float() + 1000)
	case reflect.Bool:
		v.SetBool(!v.Bool())
	case reflect.Struct:
		if v.Type() == timeType {
			v.Set(reflect.ValueOf(v.Interface().(time.Time).Add(time.Hour)))
			return
		}
		// the alphabetically first field, so that the effect does not depend on the declaration order of the type
		best := -1
		for i := 0; i < v.NumField(); i++ {
			if v.Field(i).CanSet() && (best < 0 || v.Type().Field(i).Name < v.Type().Field(best).Name) {
				best = i
			}
		}
		if best >= 0 {
			mutLeaf(v.Field(best))
		}
	case reflect.Slice:
		if v.Len() > 0 {
			mutLeaf(v.Index(0))
		}
	case reflect.Pointer:
		if !v.IsNil() {
			mutLeaf(v.Elem())
		}
	}
}

func valStrings(l []Val) []string {
	out := make([]string, len(l))
	for i := range l {
		out[i] = l[i].S
	}
	return out
}

func valInts(l []Val) []int {
	out := make([]int, len(l))
	for i := range l {
		out[i] = int(l[i].I)
	}
	return out
}

func valFloats(l []Val) []float64 {
	out := make([]float64, len(l))
	for i := range l {
		if l[i].K == "i" {
			out[i] = float64(l[i].I)
		} else {
			out[i] = l[i].F
		}
	}
	return out
}

func numVal(v Val) float64 {
	if v.K == "i" {
		return float64(v.I)
	}
	return v.F
}

// buildNum builds a number schema of any width from the node description.
func buildNum[T int | int64 | int32 | float64 | float32](e *Engine, n *Node, s *z.NumberSchema[T], conv func(Val) T, param func(TestSpec) T) z.ZogSchema {
	if n.Req {
		s.Required(reqOpts(n)...)
	} else if n.OptCall && n.Catch != nil {
		s.Required().Catch(conv(*n.Catch) + 1).Optional() // builder calls in any order: the state after the last call counts
	} else if n.OptCall {
		s.Required().Optional() // the later call counts
	}
	if n.Def != nil {
		s.Default(conv(*n.Def))
	}
	if n.Catch != nil {
		if n.Req && len(n.Tests)%2 == 1 {
			s.Catch(conv(*n.Catch) + 1) // replaced by the next call
		}
		s.Catch(conv(*n.Catch))
	}
	for i, t := range n.Tests {
		o := testOpts(t)
		switch t.T {
		case "custom":
			if t.TFunc {
				s.Test(e.tfuncTest(n, i, t))
			} else {
				s.TestFunc(e.customFn(n, i, t, false), o...)
			}
		case "eq":
			s.EQ(param(t), o...)
		case "gt":
			s.GT(param(t), o...)
		case "gte":
			s.GTE(param(t), o...)
		case "lt":
			s.LT(param(t), o...)
		case "lte":
			s.LTE(param(t), o...)
		case "oneof":
			l := make([]T, len(t.L))
			for k := range t.L {
				l[k] = conv(t.L[k])
			}
			s.OneOf(e.own("oneof", n, l).([]T), o...)
		default:
			panic("harness: bad number test " + t.T)
		}
	}
	for i, p := range n.PTs {
		s.PostTransform(e.postTransform(n, i, p))
	}
	return s
}

// coercerOpts returns the z.WithCoercer option of a primitive node (a harness callback like any other).
func (e *Engine) coercerOpts(n *Node) []z.SchemaOption {
	if n.Coercer == "" {
		return nil
	}
	return []z.SchemaOption{z.WithCoercer(func(data any) (any, error) {
		if e.yield != nil {
			e.yield("coercer")
		}
		if n.Coercer == "fail" || n.CoVal == nil {
			return nil, fmt.Errorf("custom coercer rejects %T", data)
		}
		v := typedVal(n, *n.CoVal)
		switch {
		case n.Kind == "int" && n.W == "64":
			return int64(v.(int)), nil
		case n.Kind == "int" && n.W == "32":
			return int32(v.(int)), nil
		case n.Kind == "float" && n.W == "32":
			return float32(v.(float64)), nil
		}
		return v, nil
	})}
}

// NamedStr is a user-defined string type: schemas over it are built as the documentation shows (custom-schemas.md):
// &z.StringSchema[NamedStr]{} with a coercer that converts what the default string coercer returns.
type NamedStr string

// NamedStrList is a user-defined list type (destination of a Slice(String()) schema).
type NamedStrList []string

func valStringsAs[T ~string](l []Val) []T {
	out := make([]T, len(l))
	for i := range l {
		out[i] = T(l[i].S)
	}
	return out
}

func buildStr[T ~string](e *Engine, n *Node, s *z.StringSchema[T]) z.ZogSchema {
	if n.Req {
		s.Required(reqOpts(n)...)
	} else if n.OptCall && n.Catch != nil {
		s.Required().Catch(T("zz_replaced")).Optional() // builder calls in any order: the state after the last call counts
	} else if n.OptCall {
		s.Required().Optional() // the later call counts
	}
	if n.Def != nil {
		s.Default(T(n.Def.S))
	}
	if n.Catch != nil {
		if n.Req && len(n.Tests)%2 == 1 {
			s.Catch(T("zz_replaced")) // replaced by the next call
		}
		s.Catch(T(n.Catch.S))
	}
	for i, t := range n.Tests {
		o := testOpts(t)
		if t.T == "custom" {
			if t.TFunc {
				s.Test(e.tfuncTest(n, i, t))
			} else if t.Reusable && t.Edited {
				// a library of reusable tests: built once without options, then a copy is given its own code,
				// message, params and path before it is attached - the copy's fields are the test's fields
				base := z.TestFunc("base_of_"+t.Code, e.customFn(n, i, t, false), z.Message("BASE MESSAGE"))
				cp := base
				cp.IssueCode, cp.IssueFmtFunc = t.Code, nil
				for _, opt := range o {
					opt(&cp)
				}
				s.Test(cp)
			} else if t.Reusable {
				s.Test(z.TestFunc(t.Code, e.customFn(n, i, t, false), o...))
			} else {
				s.TestFunc(e.customFn(n, i, t, false), o...)
			}
			continue
		}
		var ns z.NotStringSchema[T]
		if t.Not {
			ns = s.Not()
		}
		switch t.T {
		case "min":
			s.Min(int(t.N), o...)
		case "max":
			s.Max(int(t.N), o...)
		case "len":
			if t.Not {
				ns.Len(int(t.N), o...)
			} else {
				s.Len(int(t.N), o...)
			}
		case "oneof":
			if t.Not {
				ns.OneOf(e.own("oneof", n, valStringsAs[T](t.L)).([]T), o...)
			} else {
				s.OneOf(e.own("oneof", n, valStringsAs[T](t.L)).([]T), o...)
			}
		case "contains":
			if t.Not {
				ns.Contains(T(t.S), o...)
			} else {
				s.Contains(T(t.S), o...)
			}
		case "prefix":
			if t.Not {
				ns.HasPrefix(T(t.S), o...)
			} else {
				s.HasPrefix(T(t.S), o...)
			}
		case "suffix":
			if t.Not {
				ns.HasSuffix(T(t.S), o...)
			} else {
				s.HasSuffix(T(t.S), o...)
			}
		case "upper":
			if t.Not {
				ns.ContainsUpper(o...)
			} else {
				s.ContainsUpper(o...)
			}
		case "digit":
			if t.Not {
				ns.ContainsDigit(o...)
			} else {
				s.ContainsDigit(o...)
			}
		case "special":
			if t.Not {
				ns.ContainsSpecial(o...)
			} else {
				s.ContainsSpecial(o...)
			}
		case "email":
			if t.Not {
				ns.Email(o...)
			} else {
				s.Email(o...)
			}
		case "url":
			if t.Not {
				ns.URL(o...)
			} else {
				s.URL(o...)
			}
		case "uuid":
			if t.Not {
				ns.UUID(o...)
			} else {
				s.UUID(o...)
			}
		case "match":
			if t.Not {
				ns.Match(regexp.MustCompile(t.S), o...)
			} else {
				s.Match(regexp.MustCompile(t.S), o...)
			}
		default:
			panic("harness: bad string test " + t.T)
		}
	}
	for i, p := range n.PTs {
		s.PostTransform(e.postTransform(n, i, p))
	}
	return s
}

// Build constructs the zog schema for n. Every callback is harness code.
func (e *Engine) Build(n *Node) z.ZogSchema {
	switch n.Kind {
	case "string":
		if n.W == "named" {
			s := &z.StringSchema[NamedStr]{}
			z.WithCoercer(func(x any) (any, error) {
				v, err := conf.DefaultCoercers.String(x)
				if err != nil {
					return nil, err
				}
				return NamedStr(v.(string)), nil
			})(s)
			return buildStr(e, n, s)
		}
		return buildStr(e, n, z.String(e.coercerOpts(n)...))
	case "int":
		if n.W == "64" {
			return buildNum(e, n, z.Int64(e.coercerOpts(n)...), func(v Val) int64 { return v.I }, func(t TestSpec) int64 { return t.N })
		}
		if n.W == "32" {
			return buildNum(e, n, z.Int32(e.coercerOpts(n)...), func(v Val) int32 { return int32(v.I) }, func(t TestSpec) int32 { return int32(t.N) })
		}
		return buildNum(e, n, z.Int(e.coercerOpts(n)...), func(v Val) int { return int(v.I) }, func(t TestSpec) int { return int(t.N) })
	case "float":
		if n.W == "32" {
			return buildNum(e, n, z.Float32(e.coercerOpts(n)...), func(v Val) float32 { return float32(numVal(v)) }, func(t TestSpec) float32 { return float32(t.F) })
		}
		if n.OptCall {
			// z.Float is the documented short name of z.Float64
			return buildNum(e, n, z.Float(e.coercerOpts(n)...), func(v Val) float64 { return numVal(v) }, func(t TestSpec) float64 { return t.F })
		}
		return buildNum(e, n, z.Float64(e.coercerOpts(n)...), func(v Val) float64 { return numVal(v) }, func(t TestSpec) float64 { return t.F })
	case "bool":
		s := z.Bool(e.coercerOpts(n)...)
		if n.Req {
			s.Required(reqOpts(n)...)
		} else if n.OptCall && n.Catch != nil {
			s.Required().Catch(!n.Catch.B).Optional() // builder calls in any order: the state after the last call counts
		} else if n.OptCall {
			s.Required().Optional() // the later call counts
		}
		if n.Def != nil {
			s.Default(n.Def.B)
		}
		if n.Catch != nil {
			if n.Req && len(n.Tests)%2 == 1 {
				s.Catch(!n.Catch.B) // replaced by the next call
			}
			s.Catch(n.Catch.B)
		}
		for i, t := range n.Tests {
			switch t.T {
			case "custom":
				s.TestFunc(e.customFn(n, i, t, false), testOpts(t)...)
			case "true":
				s.True()
			case "false":
				s.False()
			case "eq":
				s.EQ(t.N != 0)
			default:
				panic("harness: bad bool test " + t.T)
			}
		}
		for i, p := range n.PTs {
			s.PostTransform(e.postTransform(n, i, p))
		}
		return s
	case "time":
		s := z.Time(e.coercerOpts(n)...)
		if n.Req {
			s.Required(reqOpts(n)...)
		} else if n.OptCall {
			s.Required().Optional() // the later call counts
		}
		if n.Def != nil {
			s.Default(MustTime(n.Def.S))
		}
		if n.Catch != nil {
			s.Catch(MustTime(n.Catch.S))
		}
		for i, t := range n.Tests {
			o := testOpts(t)
			switch t.T {
			case "custom":
				s.TestFunc(e.customFn(n, i, t, false), o...)
			case "after":
				s.After(MustTime(t.S), o...)
			case "before":
				s.Before(MustTime(t.S), o...)
			case "eq":
				s.EQ(MustTime(t.S), o...)
			default:
				panic("harness: bad time test " + t.T)
			}
		}
		for i, p := range n.PTs {
			s.PostTransform(e.postTransform(n, i, p))
		}
		return s
	case "slice":
		var sopts []z.SchemaOption
		if n.Coercer != "" {
			sopts = append(sopts, z.WithCoercer(func(data any) (any, error) {
				if e.yield != nil {
					e.yield("coercer")
				}
				if n.Coercer == "fail" || n.CoVal == nil {
					return nil, fmt.Errorf("custom slice coercer rejects %T", data)
				}
				out := make([]any, len(n.CoVal.L))
				for i, v := range n.CoVal.L {
					out[i] = v.ToGo()
				}
				return out, nil
			}))
		}
		s := z.Slice(e.Build(n.Elem), sopts...)
		if n.Req {
			s.Required(reqOpts(n)...)
		} else if n.OptCall {
			s.Required().Optional() // the later call counts
		}
		if n.Def != nil {
			dt := TypeOf(n)
			if n.W == "named" {
				dt = reflect.SliceOf(TypeOf(n.Elem))
			}
			dv := Populate(dt, *n.Def)
			if dv.Len() == 0 {
				// an empty default that owns spare storage (`buf[:0]`, `make([]T, 0, n)`)
				dv = reflect.MakeSlice(dt, 0, 4)
			}
			s.Default(e.own("default", n, dv.Interface()))
		}
		for i, t := range n.Tests {
			o := testOpts(t)
			switch t.T {
			case "custom":
				s.TestFunc(e.customFn(n, i, t, true), o...)
			case "min":
				s.Min(int(t.N), o...)
			case "max":
				s.Max(int(t.N), o...)
			case "len":
				s.Len(int(t.N), o...)
			case "contains":
				s.Contains(e.own("contains", n, Populate(TypeOf(n.Elem), t.L[0]).Interface()), o...)
			default:
				panic("harness: bad slice test " + t.T)
			}
		}
		for i, p := range n.PTs {
			s.PostTransform(e.postTransform(n, i, p))
		}
		return s
	case "struct":
		sc := z.Schema{}
		for _, f := range n.Fields {
			sc[f.Key] = e.Build(f.N)
		}
		s := z.Struct(sc)
		for i, t := range n.Tests {
			if t.T != "custom" {
				panic("harness: bad struct test " + t.T)
			}
			s.TestFunc(e.customFn(n, i, t, true), testOpts(t)...)
		}
		for i, p := range n.PTs {
			s.PostTransform(e.postTransform(n, i, p))
		}
		return s
	case "ptr":
		s := z.Ptr(e.Build(n.Elem))
		if n.Req {
			s.NotNil(reqOpts(n)...)
		}
		return s
	case "custom":
		t := TestSpec{T: "custom"}
		if len(n.Tests) > 0 {
			t = n.Tests[0]
		}
		o := testOpts(t)
		if n.CT == "int" {
			return z.CustomFunc[int](func(p *int, ctx z.Ctx) bool {
				e.record(n, "custom", 0, p, ctx, true)
				return CustomPass(t, p)
			}, o...)
		}
		return z.CustomFunc[string](func(p *string, ctx z.Ctx) bool {
			e.record(n, "custom", 0, p, ctx, true)
			return CustomPass(t, p)
		}, o...)
	case "pre":
		inner := e.Build(n.Elem)
		switch n.CT {
		case "rec_pass":
			// Preprocess in front of a nested record: the function is handed the record (a map) and passes it on
			return z.Preprocess[map[string]any, map[string]any](func(data map[string]any, ctx z.Ctx) (map[string]any, error) {
				e.record(n, "pre", 0, data, ctx, false)
				return data, nil
			}, inner)
		case "str_list":
			return z.Preprocess[string, []string](func(data string, ctx z.Ctx) ([]string, error) {
				rec := e.record(n, "pre", 0, data, ctx, false)
				if err := preErr(rec, data); err != nil {
					return nil, err
				}
				return strings.Split(data, ","), nil
			}, inner)
		default: // any_str
			return z.Preprocess[any, string](func(data any, ctx z.Ctx) (string, error) {
				rec := e.record(n, "pre", 0, data, ctx, false)
				dv := derefAll(data)
				s, ok := dv.(string)
				if rv := reflect.ValueOf(dv); !ok && rv.IsValid() && rv.Kind() == reflect.Pointer && rv.IsNil() {
					s, ok = "", true // a nil pointer (Validate of an absent *string): nothing to preprocess
				}
				if !ok {
					return "", fmt.Errorf("pre: not a string: %T", data)
				}
				if err := preErr(rec, s); err != nil {
					return "", err
				}
				if s == "n/a" {
					s = "" // a placeholder the application maps to "nothing there"
				}
				return strings.TrimSpace(s), nil
			}, inner)
		}
	}
	panic("harness: Build: bad kind " + n.Kind)
}

func preErr(rec *OpRec, s string) error {
	if rec != nil {
		rec.ErrCount++
		if rec.ErrAt > 0 && rec.ErrCount == rec.ErrAt {
			rec.Injected = append(rec.Injected, "cb_error")
			return errInjected
		}
	}
	if strings.Contains(s, "ERR") {
		return fmt.Errorf("pre: rejected %q", s)
	}
	return nil
}
