package harness

import (
	"fmt"
	"reflect"
	"sort"
	"strconv"
	"strings"
	"time"

	z "github.com/Oudwins/zog"
	"github.com/Oudwins/zog/conf"
	"github.com/Oudwins/zog/zz_verif/simrt"
)

// ---------------------------------------------------------------------------
// World description (the replay file is this document)

type OptSpec struct {
	K   string `json:"k"` // ctx | fmt
	Key string `json:"key,omitempty"`
	Val Val    `json:"val,omitempty"`
	Fmt string `json:"fmt,omitempty"` // record | stamp
	// Shared: the option value is built once per simulated process and passed to every call that names it
	// (an application-wide `var withTenant = z.WithCtxValue(...)`), not rebuilt per call.
	Shared bool `json:"shared,omitempty"`
}

type Op struct {
	Kind    string    `json:"kind"` // parse validate collect clear cfg env
	Schema  int       `json:"schema"`
	Front   string    `json:"front,omitempty"` // map zjson zhttp zenv
	Input   Val       `json:"input"`
	Pre     *Val      `json:"pre,omitempty"` // pre-fill of the destination before Parse
	Opts    []OptSpec `json:"opts,omitempty"`
	Collect string    `json:"collect,omitempty"`
	Ref     int       `json:"ref,omitempty"`
	PanicAt int       `json:"panic_at,omitempty"`
	ErrAt   int       `json:"err_at,omitempty"`
	Arg     string    `json:"arg,omitempty"`
	Rev     bool      `json:"rev,omitempty"` // destination struct types declare their fields in reverse order
	IO      *IOSpec   `json:"io,omitempty"`
	Reenter int       `json:"reenter,omitempty"` // the k-th callback of this call runs two complete executions of other schemas before it returns
}

type World struct {
	Prop     string           `json:"property"`
	Seed     uint64           `json:"seed"`
	Idx      int              `json:"idx"`
	Family   string           `json:"family,omitempty"`
	Cfg      DecCfg           `json:"cfg"`
	Schemas  []*Node          `json:"schemas"`
	Tasks    [][]Op           `json:"tasks"`
	Preempts []simrt.Preempt  `json:"preempts,omitempty"`
	Params   map[string]int   `json:"params,omitempty"`
	Dec      Decisions        `json:"decisions,omitempty"`
	Class    string           `json:"class,omitempty"`
	Detail   string           `json:"detail,omitempty"`
	Digest   string           `json:"event_digest,omitempty"`
	RDigest  string           `json:"result_digest,omitempty"` // observable events only: what a replay must reproduce
	Faults   map[string]int64 `json:"faults_fired,omitempty"`
	// Sequence: the violation needs library state left behind by earlier worlds of the same process
	// (package-level caches and the like): the replay is this list of world indices, executed in order.
	Sequence *SeqSpec `json:"sequence,omitempty"`
}

type SeqSpec struct {
	Seed    uint64 `json:"seed"`
	Tier    string `json:"tier"`
	Indices []int  `json:"indices"`
	Stride  int    `json:"stride"` // worker count of the run that found it: decides which worlds the worker re-executed for its determinism self-check
}

func (w *World) P(k string) int { return w.Params[k] }

// ---------------------------------------------------------------------------
// Results

type IssueRec struct {
	Key    string `json:"key,omitempty"`
	Code   string `json:"code"`
	Path   string `json:"path"`
	Type   string `json:"type"`
	Msg    string `json:"msg"`
	Params string `json:"params,omitempty"`
	Err    string `json:"err,omitempty"`
	Value  string `json:"value,omitempty"`
	ptr    *z.ZogIssue
}

func (i IssueRec) PCT() string { return i.Path + "|" + i.Code + "|" + i.Type }
func (i IssueRec) Full() string {
	return fmt.Sprintf("%s|%s|%s|msg=%q|params=%s|err=%q|val=%s", i.Path, i.Code, i.Type, i.Msg, i.Params, i.Err, i.Value)
}

type Result struct {
	Panic    string        `json:"panic,omitempty"`
	Injected []string      `json:"injected,omitempty"`
	Nil      bool          `json:"nil"`
	IsMap    bool          `json:"is_map"`
	Keys     []string      `json:"keys,omitempty"`
	Issues   []IssueRec    `json:"issues,omitempty"` // map: sorted by key, list order inside; $first excluded
	First    []IssueRec    `json:"first,omitempty"`
	Dest     string        `json:"dest"`
	Calls    []Call        `json:"calls,omitempty"`
	Visits   []simrt.Visit `json:"-"`
	FmtSeen  []string      `json:"fmt_seen,omitempty"`
	Steps    int64         `json:"-"`
	Nested   int           `json:"-"`
	NestBad  string        `json:"-"`

	raw     any
	data    any // what was handed to Parse as data (a Go value or a front end's factory)
	destPtr reflect.Value
}

// scrubAddr replaces printed addresses (0x followed by >= 6 hex digits) so that
// logs and verdicts never depend on where the allocator put something.
func scrubAddr(s string) string {
	if !strings.Contains(s, "0x") {
		return s
	}
	var sb strings.Builder
	for i := 0; i < len(s); {
		if s[i] == '0' && i+1 < len(s) && s[i+1] == 'x' {
			j := i + 2
			for j < len(s) && ((s[j] >= '0' && s[j] <= '9') || (s[j] >= 'a' && s[j] <= 'f')) {
				j++
			}
			if j-i-2 >= 6 {
				sb.WriteString("0xADDR")
				i = j
				continue
			}
		}
		sb.WriteByte(s[i])
		i++
	}
	return sb.String()
}

func recIssue(key string, i *z.ZogIssue) IssueRec {
	if i == nil {
		return IssueRec{Key: key, Code: "<nil issue>"}
	}
	r := IssueRec{Key: key, Code: i.Code, Path: i.Path, Type: i.Dtype, Msg: i.Message, ptr: i}
	if i.Params != nil {
		r.Params = Canon(i.Params)
	}
	if i.Err != nil {
		// error texts may print channel / func / pointer values: keep the log address-free
		r.Err = scrubAddr(i.Err.Error())
	}
	r.Msg = scrubAddr(r.Msg)
	r.Value = scrubAddr(safeCanon(i.Value))
	return r
}

func safeCanon(x any) (s string) {
	defer func() {
		if p := recover(); p != nil {
			s = "<uncanonisable>"
		}
	}()
	return Canon(x)
}

// Snapshot re-reads the issues of a result (they are shared mutable objects).
func (r *Result) Snapshot() []IssueRec {
	out, _ := snapshotRaw(r.raw)
	return out
}

func snapshotRaw(raw any) (issues []IssueRec, first []IssueRec) {
	switch m := raw.(type) {
	case z.ZogIssueMap:
		keys := make([]string, 0, len(m))
		for k := range m {
			keys = append(keys, k)
		}
		sort.Strings(keys)
		for _, k := range keys {
			for _, i := range m[k] {
				if k == "$first" {
					first = append(first, recIssue(k, i))
				} else {
					issues = append(issues, recIssue(k, i))
				}
			}
		}
	case z.ZogIssueList:
		for _, i := range m {
			issues = append(issues, recIssue("", i))
		}
	}
	return
}

func (r *Result) fill(raw any) {
	r.raw = raw
	switch m := raw.(type) {
	case z.ZogIssueMap:
		r.IsMap = true
		r.Nil = m == nil
		for k := range m {
			r.Keys = append(r.Keys, k)
		}
		sort.Strings(r.Keys)
	case z.ZogIssueList:
		r.Nil = m == nil
	default:
		r.Nil = true
	}
	r.Issues, r.First = snapshotRaw(raw)
}

// PCTs returns the sorted multiset of (path, code, type).
func (r *Result) PCTs() []string {
	out := make([]string, 0, len(r.Issues))
	for _, i := range r.Issues {
		out = append(out, i.PCT())
	}
	sort.Strings(out)
	return out
}

func (r *Result) Fulls() []string {
	out := make([]string, 0, len(r.Issues))
	for _, i := range r.Issues {
		out = append(out, i.Full())
	}
	sort.Strings(out)
	return out
}

// ---------------------------------------------------------------------------
// Execution context

type Built struct {
	N      *Node
	Z      z.ZogSchema
	Typ    reflect.Type
	TypRev reflect.Type
}

func (b *Built) typ(rev bool) reflect.Type {
	if rev {
		if b.TypRev == nil {
			b.TypRev = TypeOfRev(b.N)
		}
		return b.TypRev
	}
	return b.Typ
}

type Violation struct {
	Prop   string `json:"property"`
	Class  string `json:"class"`
	Detail string `json:"detail"`
}

type X struct {
	W     *World
	Dec   *Dec
	R     *simrt.Run
	E     *Engine
	Built []*Built
	recs  map[string]*OpRec
	Trace bool

	// reach / evidence
	Probes        map[string]int64
	Faults        map[string]int64
	Ops           int64
	Steps         int64
	NonTrivial    bool
	Sig           strings.Builder // state signature material
	digests       []string
	rdigests      []string
	RDig          string // digest of the observable events (operations, results, collected output)
	AllEvents     []string
	Replay        bool
	genRng        *Rng // run-time generation (preemption points); results are stored in the world
	given         any  // op.Arg == "given": hand this Go value to Parse as is
	envDP         any  // world parameter env_shared: the one zenv provider every call of the world uses
	leanRecs      [48]*OpRec
	OpaqueResults bool
	SanitizeBad   string
	sharedOpts    map[string]z.ExecOption
	destHook      func(dest reflect.Value, data any) // arranges the destination of a Parse call after pre-fill (e.g. storage shared with the input)
}

func sharedOptKey(o *OptSpec) string { return o.Key + "=" + o.Val.String() }

// buildSharedOpts builds the long-lived option values of a simulated process (read-only afterwards).
func (x *X) buildSharedOpts() {
	x.sharedOpts = map[string]z.ExecOption{}
	for _, t := range x.W.Tasks {
		for i := range t {
			for j := range t[i].Opts {
				o := &t[i].Opts[j]
				if o.K == "ctx" && o.Shared {
					if _, ok := x.sharedOpts[sharedOptKey(o)]; !ok {
						x.sharedOpts[sharedOptKey(o)] = z.WithCtxValue(o.Key, o.Val.ToGo())
					}
				}
			}
		}
	}
}

func NewX(w *World, dec *Dec) *X {
	x := &X{W: w, Dec: dec, Probes: map[string]int64{}, Faults: map[string]int64{}}
	x.E = &Engine{yield: simrt.Yield}
	x.E.Cur = func() *OpRec {
		if x.R == nil {
			return nil
		}
		return x.recs[x.R.OpTag]
	}
	return x
}

// BuildSchemas (re)builds every schema of the world.
func (x *X) BuildSchemas() {
	x.Built = nil
	for _, n := range x.W.Schemas {
		id := 0
		n.Number(&id)
		x.Built = append(x.Built, &Built{N: n, Z: x.E.Build(n), Typ: TypeOf(n), TypRev: TypeOfRev(n)})
	}
}

// FreshRun starts a new simulated process: empty pools, new event log. The
// previous run's counters are folded into the totals.
func (x *X) FreshRun(phase string) {
	x.foldRun()
	x.R = simrt.NewRun(x.Dec)
	x.R.Trace = x.Trace
	x.recs = map[string]*OpRec{}
	x.Dec.Phase = phase
	x.buildSharedOpts()
	simrt.Install(x.R)
}

func (x *X) SetPhase(phase string) { x.Dec.Phase = phase }

func (x *X) foldRun() {
	if x.R == nil {
		return
	}
	for k, v := range x.R.Stats {
		x.Faults[k] += v
	}
	x.Steps += x.R.Steps
	x.digests = append(x.digests, x.R.Digest())
	x.rdigests = append(x.rdigests, x.R.RDigest())
	if x.Trace {
		x.AllEvents = append(x.AllEvents, x.R.Events...)
	}
}

// Finish uninstalls the simulator and returns the combined event digest.
func (x *X) Finish() string {
	x.foldRun()
	x.R = nil
	simrt.Uninstall()
	x.RDig = strings.Join(x.rdigests, "-")
	return strings.Join(x.digests, "-")
}

func (x *X) Event(s string) {
	if x.R != nil {
		x.R.Event(s)
	}
}

// ---------------------------------------------------------------------------
// Running one operation

func (x *X) execOptions(op *Op, rec *OpRec) []z.ExecOption {
	var out []z.ExecOption
	for _, o := range op.Opts {
		switch o.K {
		case "ctx":
			if so, ok := x.sharedOpts[sharedOptKey(&o)]; ok && o.Shared {
				out = append(out, so)
				continue
			}
			out = append(out, z.WithCtxValue(o.Key, o.Val.ToGo()))
		case "fmt":
			switch o.Fmt {
			case "record":
				out = append(out, z.WithIssueFormatter(func(e *z.ZogIssue, c z.Ctx) {
					rec.FmtSeen = append(rec.FmtSeen, e.Path+"|"+e.Code)
					conf.IssueFormatter(e, c)
				}))
			case "setparams":
				// a formatter may replace the params of the issue it was handed (the issue is its own; the schema's map is not)
				out = append(out, z.WithIssueFormatter(func(e *z.ZogIssue, c z.Ctx) {
					rec.FmtSeen = append(rec.FmtSeen, e.Path+"|"+e.Code)
					e.SetParams(map[string]any{"hint": "set by the formatter"})
					conf.IssueFormatter(e, c)
				}))
			case "stamp":
				f := func(e *z.ZogIssue, c z.Ctx) {
					rec.FmtSeen = append(rec.FmtSeen, e.Path+"|"+e.Code)
					e.SetMessage("EXEC:" + e.Code)
				}
				if o.Key == "legacy" {
					out = append(out, z.WithErrFormatter(f)) // the older name of the same option
				} else {
					out = append(out, z.WithIssueFormatter(f))
				}
			}
		}
	}
	return out
}

func panicString(p any) string {
	switch v := p.(type) {
	case injectedPanic:
		return "injected"
	case error:
		return "error: " + v.Error()
	default:
		return fmt.Sprint(p)
	}
}

// Exec runs a parse/validate operation and captures everything observable.
func (x *X) Exec(tag string, op *Op) *Result {
	b := x.Built[op.Schema]
	res := &Result{}
	rec := &OpRec{RootNode: b.N, PanicAt: op.PanicAt, ErrAt: op.ErrAt, Validate: op.Kind == "validate", Reenter: op.Reenter}
	rec.CtxKeys = x.ctxKeys()
	dest := reflect.New(b.typ(op.Rev))
	var data any
	cleanup := func() {}
	if op.Kind == "validate" {
		populate(dest.Elem(), op.Input)
		if x.destHook != nil {
			x.destHook(dest, nil)
		}
	} else {
		if op.Pre != nil {
			populate(dest.Elem(), *op.Pre)
		}
		data, cleanup = x.makeInput(op, b)
		if x.destHook != nil {
			x.destHook(dest, data)
		}
		res.data = data
	}
	defer cleanup()
	rec.Root = dest
	res.destPtr = dest
	x.recs[tag] = rec
	opts := x.execOptions(op, rec)

	x.R.OpTag = tag
	x.R.Visits = nil
	x.R.InOp = true
	steps0 := x.R.Steps
	x.R.Event("op " + tag + " " + op.Kind)
	func() {
		defer func() {
			if p := recover(); p != nil {
				res.Panic = panicString(p)
			}
		}()
		var raw any
		if op.Kind == "validate" {
			raw = callValidate(b, dest, opts)
		} else {
			raw = callParse(b, data, dest, opts)
		}
		res.fill(raw)
	}()
	x.R.InOp = false
	res.Steps = x.R.Steps - steps0
	res.Visits = x.R.Visits
	res.Calls = rec.Calls
	res.FmtSeen = rec.FmtSeen
	res.Injected = rec.Injected
	res.Nested, res.NestBad = rec.Nested, rec.NestBad
	res.Dest = scrubAddr(CanonV(dest.Elem()))
	for _, f := range rec.Injected {
		x.Faults[f]++
	}
	x.Ops++
	// the result summary is part of the event log: same decisions => same results
	if x.OpaqueResults {
		// inputs whose %v prints an address (pointer chains, channels, funcs) make the library's own output
		// allocation-dependent; such worlds log only whether the call returned
		x.R.Event("res " + tag + " panicked=" + strconv.FormatBool(res.Panic != ""))
	} else {
		x.R.Event("res " + tag + " panic=" + res.Panic + " issues=" + strings.Join(res.Fulls(), ";") + " dest=" + res.Dest)
	}
	return res
}

func (x *X) ctxKeys() []string {
	seen := map[string]bool{}
	var keys []string
	for _, t := range x.W.Tasks {
		for _, op := range t {
			for _, o := range op.Opts {
				if o.K == "ctx" && !seen[o.Key] {
					seen[o.Key] = true
					keys = append(keys, o.Key)
				}
			}
		}
	}
	sort.Strings(keys)
	return keys
}

// Collect hands the issues of an earlier result back to the library.
func (x *X) Collect(tag string, how string, res *Result) (sanitized string, panicked string) {
	x.R.OpTag = tag
	x.R.InOp = true
	defer func() {
		x.R.InOp = false
		if p := recover(); p != nil {
			panicked = panicString(p)
		}
	}()
	x.R.Event("collect " + tag + " " + how)
	want := expectedSanitized(how, res.raw)
	sanitized = collectRaw(how, res.raw)
	if want != "" && sanitized != want && x.SanitizeBad == "" {
		x.SanitizeBad = fmt.Sprintf("%s returned %s, the issues it was given carry %s", how, sanitized, want)
	}
	x.Ops++
	return
}

// expectedSanitized is what Sanitize*AndCollect must return: the messages the
// issues carried when they were handed in, under the same keys, in the same order.
func expectedSanitized(how string, rawAny any) string {
	if !strings.HasPrefix(how, "Sanitize") {
		return ""
	}
	switch raw := rawAny.(type) {
	case z.ZogIssueMap:
		if raw == nil {
			return ""
		}
		m := make(map[string][]string, len(raw))
		for k, l := range raw {
			msgs := make([]string, len(l))
			for i, iss := range l {
				msgs[i] = iss.Message
			}
			m[k] = msgs
		}
		return Canon(m)
	case z.ZogIssueList:
		if raw == nil {
			return ""
		}
		msgs := make([]string, len(raw))
		for i, iss := range raw {
			msgs[i] = iss.Message
		}
		return Canon(msgs)
	}
	return ""
}

// collectRaw hands issues back to the library with the named helper.
func collectRaw(how string, rawAny any) (sanitized string) {
	switch raw := rawAny.(type) {
	case z.ZogIssueMap:
		switch how {
		case "drain":
			// the result is the caller's: a handler that removes what it has dealt with ends up with an empty map (nothing is handed back)
			for _, k := range sortedKeys(raw) {
				delete(raw, k)
			}
		case "CollectMap", "CollectList":
			z.Issues.CollectMap(raw)
		case "SanitizeMapAndCollect", "SanitizeListAndCollect":
			sanitized = Canon(z.Issues.SanitizeMapAndCollect(raw))
		case "Collect":
			for _, k := range sortedKeys(raw) {
				if k == "$first" {
					continue
				}
				for _, i := range raw[k] {
					z.Issues.Collect(i)
				}
			}
		}
	case z.ZogIssueList:
		switch how {
		case "CollectList", "CollectMap":
			z.Issues.CollectList(raw)
		case "SanitizeListAndCollect", "SanitizeMapAndCollect":
			sanitized = Canon(z.Issues.SanitizeListAndCollect(raw))
		case "Collect":
			for _, i := range raw {
				z.Issues.Collect(i)
			}
		}
	}
	return
}

func sortedKeys[V any](m map[string]V) []string {
	ks := make([]string, 0, len(m))
	for k := range m {
		ks = append(ks, k)
	}
	sort.Strings(ks)
	return ks
}

func callParse(b *Built, data any, dest reflect.Value, opts []z.ExecOption) any {
	d := dest.Interface()
	switch s := b.Z.(type) {
	case *z.StructSchema:
		return s.Parse(data, d, opts...)
	case *z.SliceSchema:
		return s.Parse(data, d, opts...)
	case *z.PointerSchema:
		return s.Parse(data, d, opts...)
	case *z.StringSchema[string]:
		return s.Parse(data, d.(*string), opts...)
	case *z.StringSchema[NamedStr]:
		return s.Parse(data, d.(*NamedStr), opts...)
	case *z.NumberSchema[int]:
		return s.Parse(data, d.(*int), opts...)
	case *z.NumberSchema[float64]:
		return s.Parse(data, d.(*float64), opts...)
	case *z.NumberSchema[int64]:
		return s.Parse(data, d.(*int64), opts...)
	case *z.NumberSchema[int32]:
		return s.Parse(data, d.(*int32), opts...)
	case *z.NumberSchema[float32]:
		return s.Parse(data, d.(*float32), opts...)
	case *z.BoolSchema[bool]:
		return s.Parse(data, d.(*bool), opts...)
	case *z.TimeSchema:
		return s.Parse(data, d.(*time.Time), opts...)
	case *z.Custom[string]:
		return s.Parse(data, d.(*string), opts...)
	case *z.Custom[int]:
		return s.Parse(data, d.(*int), opts...)
	case *z.PreprocessSchema[any, string]:
		return s.Parse(data, d.(*string), opts...)
	case *z.PreprocessSchema[string, []string]:
		str, _ := data.(string)
		return s.Parse(str, d.(*[]string), opts...)
	}
	panic(fmt.Sprintf("harness: callParse: unsupported schema %T", b.Z))
}

func callValidate(b *Built, dest reflect.Value, opts []z.ExecOption) any {
	d := dest.Interface()
	switch s := b.Z.(type) {
	case *z.StructSchema:
		return s.Validate(d, opts...)
	case *z.SliceSchema:
		return s.Validate(d, opts...)
	case *z.PointerSchema:
		return s.Validate(d, opts...)
	case *z.StringSchema[string]:
		return s.Validate(d.(*string), opts...)
	case *z.StringSchema[NamedStr]:
		return s.Validate(d.(*NamedStr), opts...)
	case *z.NumberSchema[int]:
		return s.Validate(d.(*int), opts...)
	case *z.NumberSchema[float64]:
		return s.Validate(d.(*float64), opts...)
	case *z.NumberSchema[int64]:
		return s.Validate(d.(*int64), opts...)
	case *z.NumberSchema[int32]:
		return s.Validate(d.(*int32), opts...)
	case *z.NumberSchema[float32]:
		return s.Validate(d.(*float32), opts...)
	case *z.BoolSchema[bool]:
		return s.Validate(d.(*bool), opts...)
	case *z.TimeSchema:
		return s.Validate(d.(*time.Time), opts...)
	case *z.Custom[string]:
		return s.Validate(d.(*string), opts...)
	case *z.Custom[int]:
		return s.Validate(d.(*int), opts...)
	case *z.PreprocessSchema[any, string]:
		return s.Validate(d.(*string), opts...)
	}
	panic(fmt.Sprintf("harness: callValidate: unsupported schema %T", b.Z))
}
