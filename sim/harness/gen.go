package harness

import (
	"sort"
	"strconv"
	"strings"
	"time"
)

func sortStrings(s []string) { sort.Strings(s) }

// ---------------------------------------------------------------------------
// Swarm-varied generator configuration

type GenCfg struct {
	MaxDepth         int
	MaxFields        int
	MaxElems         int
	Kinds            []string // enabled node kinds
	PReq             float64
	PDef             float64
	PCatch           float64
	PTest            float64 // probability of each additional test
	MaxTests         int
	PCustomT         float64 // probability that a test is a custom (recording) one
	PTags            float64
	PPT              float64 // probability of a PostTransform on a node
	PPTErr           float64 // probability that a PostTransform returns an error
	PValid           float64 // probability that a leaf input satisfies its node
	PAbsent          float64
	PBadType         float64
	Mode             string // parse | validate
	Opts             bool   // test options (Message / IssuePath)
	NoCoerceVariants bool
	StructTests      float64
	Coercers         bool // z.WithCoercer on some primitives
	EmptyTags        bool // tag values may be the empty string (C06 only)
	Widths           bool // Int64 / Float32 schemas (int64 / float32 destinations)
	InfFloats        bool // +Inf / -Inf float leaves (only where no reference model and no text rendering is involved)
	RawStrings       bool // strings that are not valid UTF-8 (only where the record stays a Go value: no JSON text, no form)
	BigInts          bool // int64 values beyond 2^53 (only where every front end in play carries integers exactly)
	Formats          bool // Match / UUID / Email / URL tests on strings, with their own input domains
	HandMade         bool // PostTransforms that report by hand, or return a long-lived issue object of the caller (no Collect in such worlds)
}

var allKinds = []string{"string", "int", "float", "bool", "time", "struct", "slice", "ptr", "custom", "pre"}

// Tier is set by the driver ("quick" | "thorough"); the thorough tier widens the bounds.
var Tier = "quick"

func DrawGenCfg(r *Rng, mode string) GenCfg {
	d, f, e := 3, 4, 3
	if Tier == "thorough" {
		d, f, e = 4, 6, 4
	}
	c := GenCfg{
		MaxDepth:    1 + r.Intn(d),
		MaxFields:   1 + r.Intn(f),
		MaxElems:    1 + r.Intn(e),
		PReq:        Pick(r, []float64{0.2, 0.5, 0.8}),
		PDef:        Pick(r, []float64{0, 0.15, 0.4}),
		PCatch:      Pick(r, []float64{0, 0.15, 0.4}),
		PTest:       Pick(r, []float64{0.3, 0.6, 0.8}),
		MaxTests:    1 + r.Intn(3),
		PCustomT:    Pick(r, []float64{0, 0.2, 0.5}),
		PTags:       Pick(r, []float64{0, 0, 0.3, 0.7}),
		PValid:      Pick(r, []float64{0.5, 0.8, 0.95}),
		PAbsent:     Pick(r, []float64{0.05, 0.15, 0.3}),
		PBadType:    Pick(r, []float64{0, 0.05, 0.15}),
		Mode:        mode,
		StructTests: Pick(r, []float64{0, 0.3, 0.6}),
		Formats:     r.P(0.5),
	}
	// swarm: each kind enabled with probability 3/4, primitives never all off
	for _, k := range allKinds {
		if r.P(0.75) {
			c.Kinds = append(c.Kinds, k)
		}
	}
	hasPrim := false
	for _, k := range c.Kinds {
		if k == "string" || k == "int" || k == "float" || k == "bool" || k == "time" {
			hasPrim = true
		}
	}
	if !hasPrim {
		c.Kinds = append(c.Kinds, "string", "int")
	}
	return c
}

func (c *GenCfg) has(k string) bool {
	for _, x := range c.Kinds {
		if x == k {
			return true
		}
	}
	return false
}

func (c *GenCfg) without(ks ...string) {
	var out []string
	for _, k := range c.Kinds {
		drop := false
		for _, d := range ks {
			if d == k {
				drop = true
			}
		}
		if !drop {
			out = append(out, k)
		}
	}
	c.Kinds = out
}

// ---------------------------------------------------------------------------
// Value domains (small on purpose: collisions with test parameters are wanted)

var rawStrings = []string{"caf\xe9", "\xff\xfeab", "ab\xc3", "a\x80b\x80c", "\xe9\xe8\xe7\xe6\xe5"}

var strDomain = []string{"a", "ab", "abc", "abcd", "hello", "Hello1", "x!", "zzz", "abcdefgh", "Q", "7up", "a b", "12", "true", "é", "ab#", "pa$$w0rd", "$HOME", "a${b}c", "50%", "red,green", "a, b", "\u200b", "\ufeffx", " ab ", "go "}
var timeBase = "2024-01-10T00:00:00Z"

func dayTime(k int) string {
	return MustTime(timeBase).Add(time.Duration(k) * 24 * time.Hour).UTC().Format(time.RFC3339)
}

// The format tests (Match, UUID, Email, URL) get their own small input domains: members, near misses and look-alikes.
var matchPatterns = []string{`^abc$`, `^ab`, `lo$`, `b`, `^[0-9]+$`, `^h.*o$`, `^v1\.2$`, `^prod\z`, `^(a|ab)$`, `(?i)^hello$`, `^$`, `^a\$b$`, `^x!$`}

var formatDomain = map[string][]string{
	"match": {"abc", "xabc", "abcx", "abc\n", "ab", "a", "v1.2", "v1x2", "xv1.2", "prod", "production", "reprod", "hello", "HELLO", "Hello1", "hello\n", "h\no", "ho", "h", "123", "12a", "a123",
		"lo", "hello world", "a$b", "xa$b", "x!", "xx!", "ab#", "b"},
	"uuid": {"123e4567-e89b-12d3-a456-426614174000", "123E4567-E89B-12D3-A456-426614174000", "00000000-0000-0000-0000-000000000000", "123e4567e89b12d3a456426614174000",
		"123e4567--e89b-12d3-a456-426614174000", "123e4567-e89b-12d3-a456-42661417400", "123e4567-e89b-12d3-a456-4266141740000", "g23e4567-e89b-12d3-a456-426614174000",
		"123e4567-e89b-12d3-a456-426614174000\n", "123e-4567e89b-12d3-a456-426614174000", "123e4567-e89b-12d3-a456-426614174000-", "-123e4567-e89b-12d3-a456-426614174000",
		"123e4567-e89b-12d3-a456_426614174000", "{123e4567-e89b-12d3-a456-426614174000}", "1-2-3-4-5", "123e4567-e89-b12d3-a456-426614174000", "123e4567-e89b-12d3-a456-42661417400\u212a", "123e4567-e89b-12d3-a456-42661417-000", "-23e4567-e89b-12d3-a456-426614174000", strings.Repeat("-", 36)},
	"email": {"a@b.co", "john.doe+tag@example.com", "a@b", "A1!#$%&'*+/=?^_`{|}~-@x.y", "a@", "@b.co", "a b@c.de", "a@b..co", "a@-b.co", "a@b-.co", "a@b.co\n", "a@@b.co", "a@b_c.de",
		"\u00e9@b.co", "a@b.co.", "a@.b.co", "a.b.co", "a@" + strings.Repeat("x", 63) + ".co", "a@" + strings.Repeat("x", 64) + ".co", "a@b.c-d", "a@b.c-", "jame\u017f@example.com", "\u212aelvin@example.com", "ops@\u017ftorage.example.com", "a@b.\u212a"},
	"url": {"https://example.com", "http://a", "example.com", "https://", "mailto:a@b.co", "//example.com", "https://exa mple.com", "ftp://x/y?z#w", "http://[::1]:80", "http://%zz", ":foo",
		"http:/a", "http:///path", "HTTP://A.B", "a://b", "1http://a.b", "/just/a/path", "http://a.b\n"},
}

func formatTest(n *Node) string {
	if n.Kind != "string" {
		return ""
	}
	for _, t := range n.Tests {
		switch t.T {
		case "match", "uuid", "email", "url":
			return t.T
		}
	}
	return ""
}

// genTypedFor is genTyped for the node at hand: a string with a format test mostly draws from that format's domain.
func genTypedFor(r *Rng, n *Node) Val {
	if f := formatTest(n); f != "" && r.P(0.7) {
		return VS(Pick(r, formatDomain[f]))
	}
	return genTyped(r, n.Kind)
}

func genTyped(r *Rng, kind string) Val {
	switch kind {
	case "string":
		return VS(Pick(r, strDomain))
	case "int":
		return VI(int64(r.Intn(16) - 3))
	case "float":
		return VF(float64(r.Intn(20)-4) * 0.5)
	case "bool":
		return VB(r.P(0.5))
	case "time":
		if r.P(0.04) {
			// instants far outside the range a Unix nanosecond count can hold (1678..2262) are ordinary time.Time values
			return VT(Pick(r, []string{"9999-12-31T23:59:59Z", "1600-05-17T00:00:00Z", "2300-01-01T00:00:00Z", "1066-10-14T09:00:00Z"}))
		}
		t := dayTime(r.Intn(10) - 3)
		if r.P(0.15) {
			// the same instant written in another zone
			tt := MustTime(t).In(time.FixedZone("x", Pick(r, []int{2, -5, 9})*3600))
			t = tt.Format(time.RFC3339)
		}
		return VT(t)
	}
	return VNil()
}

// nonZeroTyped never returns the Go zero value of the kind.
func nonZeroTyped(r *Rng, kind string) Val {
	for {
		v := genTyped(r, kind)
		switch kind {
		case "int":
			if v.I == 0 {
				continue
			}
		case "float":
			if v.F == 0 {
				continue
			}
		case "bool":
			return VB(true)
		}
		return v
	}
}

// ---------------------------------------------------------------------------
// Schemas

var keyVocab = []string{"a", "b", "c", "name", "age", "Tags", "id", "e", "Zip", "flag", "when", "items"}

func genTests(r *Rng, c *GenCfg, n *Node) {
	nt := 0
	for nt < c.MaxTests && r.P(c.PTest) {
		nt++
	}
	for i := 0; i < nt; i++ {
		var t TestSpec
		if r.P(c.PCustomT) || n.Kind == "struct" {
			t = TestSpec{T: "custom", Mod: int64(Pick(r, []int{0, 1, 2, 3, 3})), Code: "c" + strconv.Itoa(i)}
			if n.Kind == "struct" || n.Kind == "slice" {
				// container-level custom tests have a constant verdict: the model does not
				// claim to know every byte of a partially parsed container
				t.Mod = int64(Pick(r, []int{0, 0, 1}))
			}
			if t.Mod > 1 {
				t.Rem = int64(r.Intn(int(t.Mod)))
			}
		} else {
			switch n.Kind {
			case "string":
				k := Pick(r, []string{"min", "max", "len", "oneof", "contains", "prefix", "suffix", "upper", "digit", "special"})
				if c.Formats && r.P(0.25) {
					k = Pick(r, []string{"match", "match", "uuid", "email", "url"})
				}
				t = TestSpec{T: k}
				switch k {
				case "match":
					t.S = Pick(r, matchPatterns)
				case "min", "max", "len":
					t.N = int64(r.Intn(6))
				case "oneof":
					no := 1 + r.Intn(3)
					if r.P(0.1) {
						no = 6 + r.Intn(4) // long option lists (messages may abbreviate them; the list itself is the schema's)
					}
					for j := 0; j < no; j++ {
						t.L = append(t.L, VS(Pick(r, strDomain)))
					}
				case "contains", "prefix", "suffix":
					t.S = Pick(r, []string{"a", "ab", "h", "z", "1", "lo", "!", "a", "ab", "h", "", "$id_", "US$5", "${x}"}) // the empty needle is in every string
				}
				if k != "min" && k != "max" && r.P(0.2) {
					t.Not = true
				}
			case "int":
				k := Pick(r, []string{"eq", "gt", "gte", "lt", "lte", "oneof"})
				t = TestSpec{T: k, N: int64(r.Intn(12) - 2)}
				if k == "oneof" {
					for j := 0; j < 1+r.Intn(3); j++ {
						t.L = append(t.L, VI(int64(r.Intn(12)-2)))
					}
				}
			case "float":
				k := Pick(r, []string{"eq", "gt", "gte", "lt", "lte", "oneof"})
				t = TestSpec{T: k, F: float64(r.Intn(16)-3) * 0.5}
				if k == "oneof" {
					for j := 0; j < 1+r.Intn(3); j++ {
						t.L = append(t.L, VF(float64(r.Intn(16)-3)*0.5))
					}
				}
			case "bool":
				t = TestSpec{T: "custom", Mod: int64(Pick(r, []int{0, 2})), Code: "c" + strconv.Itoa(i)}
			case "time":
				t = TestSpec{T: Pick(r, []string{"after", "before", "eq"}), S: dayTime(r.Intn(8) - 2)}
				if r.P(0.06) {
					t.S = Pick(r, []string{"1600-05-17T00:00:00Z", "2300-01-01T00:00:00Z"})
				}
			case "slice":
				k := Pick(r, []string{"min", "max", "len", "contains"})
				t = TestSpec{T: k, N: int64(r.Intn(4))}
				if k == "contains" {
					// time elements: "membership by deep equality" depends on the Location pointer, not the instant
					if n.Elem.Kind == "slice" && n.Elem.Elem.IsPrim() && n.Elem.Elem.Kind != "time" {
						// membership by deep equality also for elements that are lists themselves
						inner := VL()
						for k := 0; k < 1+r.Intn(2); k++ {
							inner.L = append(inner.L, genTyped(r, n.Elem.Elem.Kind))
						}
						t.L = []Val{inner}
					} else if !n.Elem.IsPrim() || n.Elem.Kind == "time" {
						t.T = "min"
					} else {
						t.L = []Val{genTyped(r, n.Elem.Kind)}
					}
				}
			}
		}
		if c.Opts && t.T != "custom" && r.P(0.12) {
			// IssueCode on a built-in test (also after Not()): the code is a label, it must not change what the test checks
			t.Code = Pick(r, []string{"custom_code", "not_allowed", "not_", "reserved"}) + strconv.Itoa(i)
		} else if t.T == "custom" && !t.TFunc && r.P(0.1) {
			t.Code = Pick(r, []string{"not_allowed", "not_c"}) + strconv.Itoa(i)
		}
		if c.Opts && r.P(0.2) {
			t.Msg = "M" + strconv.Itoa(i)
		} else if c.Opts && r.P(0.1) {
			t.MsgFn = true
		}
		if c.Opts && t.T == "custom" && r.P(0.2) {
			// Params replaces a test's params; on a built-in test that would take the template's own placeholder away
			t.Params = []KV{{"custom_param", VI(int64(i))}}
		}
		if t.T == "custom" && (n.Kind == "string") && r.P(0.3) {
			t.Reusable = true
			t.Edited = r.P(0.4)
		}
		if t.T == "custom" && (n.Kind == "string" || n.Kind == "int") && t.Msg == "" && !t.MsgFn && len(t.Params) == 0 && r.P(0.25) {
			t.TFunc, t.Reusable, t.Edited = true, false, false
		}
		n.Tests = append(n.Tests, t)
	}
}

func genReqOpt(r *Rng, c *GenCfg, n *Node) {
	if !c.Opts || !n.Req || !r.P(0.25) {
		return
	}
	o := &TestSpec{T: "required"}
	switch r.Intn(3) {
	case 0:
		o.Msg = "RM"
	case 1:
		o.Code = "req_custom"
	default:
		o.Msg, o.Code = "RM", "req_custom"
	}
	n.ReqOpt = o
}

func genPTs(r *Rng, c *GenCfg, n *Node) {
	for r.P(c.PPT) && len(n.PTs) < 3 {
		p := PTSpec{}
		if r.P(c.PPTErr) {
			p.Err = Pick(r, []string{"err", "err", "issue", "wrapped"})
			if c.HandMade && r.P(0.4) {
				p.Err = Pick(r, []string{"sentinel", "byhand", "byhand"})
			}
		}
		n.PTs = append(n.PTs, p)
	}
}

func GenNode(r *Rng, c *GenCfg, depth int, root bool) *Node {
	var kinds []string
	for _, k := range c.Kinds {
		if depth >= c.MaxDepth && (k == "struct" || k == "slice") {
			continue
		}
		kinds = append(kinds, k)
	}
	if len(kinds) == 0 {
		kinds = []string{"string"}
	}
	kind := Pick(r, kinds)
	if root {
		// mostly structs at the root; any kind otherwise
		if r.P(0.75) && c.MaxDepth >= 1 {
			kind = "struct"
		}
	}
	return genKind(r, c, kind, depth)
}

// DeepChain builds a narrow schema whose paths have `segments` segments or more
// (structs in slices in structs ...), with 1-2 failing-prone leaves per level.
// AddEmptyZogTag gives, in some nested structs, one untagged leaf field (a primitive or a list of primitives) the
// tag `zog:""`: its input key and its path segment are the empty string (`address.` - an odd but legal configuration).
func AddEmptyZogTag(r *Rng, root *Node, p float64) {
	var walk func(n *Node, depth int)
	walk = func(n *Node, depth int) {
		if n == nil {
			return
		}
		if n.Kind == "struct" && depth > 0 && r.P(p) {
			var cands []*Field
			for _, f := range n.Fields {
				if len(f.Tags) == 0 && (f.N.IsPrim() || (f.N.Kind == "slice" && f.N.Elem.IsPrim())) {
					cands = append(cands, f)
				}
			}
			if len(cands) > 0 {
				f := cands[r.Intn(len(cands))]
				f.Tags = []KV{{"zog", VS("")}}
			}
		}
		for _, f := range n.Fields {
			walk(f.N, depth+1)
		}
		walk(n.Elem, depth+1)
	}
	walk(root, 0)
}

func hasEmptyZogTag(n *Node) bool {
	found := false
	n.Walk(func(m *Node) {
		for _, f := range m.Fields {
			if v, ok := f.Tag("zog"); ok && v == "" {
				found = true
			}
		}
	})
	return found
}

// NonEmptyRecords makes every record on the way to a field tagged `zog:""` present and non-empty in a Parse input
// (an absent or empty record is looked up by schema keys - the open finding F-TAGS - which is not what these worlds are about).
func NonEmptyRecords(n *Node, v Val) Val {
	if n == nil || !hasEmptyZogTag(n) {
		return v
	}
	switch n.Kind {
	case "struct":
		if v.K != "m" {
			if !v.IsNil() {
				return v
			}
			v = VM()
		}
		out := VM()
		seen := map[string]bool{}
		for _, kv := range v.M {
			var sub *Node
			for _, f := range n.Fields {
				if f.Key == kv.K {
					sub = f.N
				}
			}
			seen[kv.K] = true
			if sub != nil {
				out.M = append(out.M, KV{kv.K, NonEmptyRecords(sub, kv.V)})
			} else {
				out.M = append(out.M, kv)
			}
		}
		for _, f := range n.Fields {
			if !seen[f.Key] && f.N.Kind == "struct" && hasEmptyZogTag(f.N) {
				out.M = append(out.M, KV{f.Key, NonEmptyRecords(f.N, VNil())})
			}
		}
		if len(out.M) == 0 {
			out.M = append(out.M, KV{"zz_unused", VS("x")})
		}
		return out
	case "slice":
		if v.K == "m" {
			return NonEmptyRecords(n.Elem, v) // a record where a list is expected is boxed: it is the one element
		}
		if v.K != "l" {
			return v
		}
		out := VL()
		for _, e := range v.L {
			out.L = append(out.L, NonEmptyRecords(n.Elem, e))
		}
		return out
	case "ptr", "pre":
		return NonEmptyRecords(n.Elem, v)
	}
	return v
}

// DeepSegments draws a path length: mostly just beyond a cold path builder's five segments, sometimes beyond
// its first and second growth steps (10, 20).
func DeepSegments(r *Rng) int {
	if r.P(0.3) {
		return 11 + r.Intn(4)
	}
	return 5 + r.Intn(3)
}

func DeepChain(r *Rng, c *GenCfg, segments int) *Node {
	leaf := func() *Node {
		k := Pick(r, []string{"string", "int", "bool"})
		cc := *c
		cc.PCatch = 0
		n := genKind(r, &cc, k, 99)
		n.Req = true
		n.Def = nil
		return n
	}
	var build func(left int) *Node
	build = func(left int) *Node {
		s := &Node{Kind: "struct"}
		used := map[string]bool{}
		add := func(n *Node) {
			for {
				k := Pick(r, keyVocab)
				if !used[GoName(k)] {
					used[GoName(k)] = true
					s.Fields = append(s.Fields, &Field{Key: k, N: n})
					return
				}
			}
		}
		add(leaf())
		if left > 1 {
			if r.P(0.4) && left > 2 {
				add(&Node{Kind: "slice", Req: r.P(0.5), Elem: build(left - 2)})
			} else {
				add(build(left - 1))
			}
			if r.P(0.5) {
				add(leaf())
			}
			if r.P(0.3) && left > 1 && left <= 7 {
				add(build(left - 1))
			}
		}
		if r.P(c.StructTests) {
			genTests(r, c, s)
		}
		return s
	}
	return build(segments)
}

func genKind(r *Rng, c *GenCfg, kind string, depth int) *Node {
	n := &Node{Kind: kind}
	switch kind {
	case "string", "int", "float", "bool", "time":
		if c.Widths && r.P(0.25) {
			switch kind {
			case "string":
				n.W = "named" // a schema over a user-defined string type
			case "int":
				n.W = Pick(r, []string{"64", "64", "32"})
			case "float":
				n.W = "32"
			}
		}
		n.Req = r.P(c.PReq)
		if !n.Req && r.P(0.12) {
			n.OptCall = true
		}
		if r.P(c.PDef) {
			v := genTyped(r, kind)
			n.Def = &v
		}
		if r.P(c.PCatch) {
			v := genTyped(r, kind)
			n.Catch = &v
		}
		genReqOpt(r, c, n)
		genTests(r, c, n)
		genPTs(r, c, n)
		if c.Coercers && r.P(0.12) && n.W != "named" {
			n.Coercer = Pick(r, []string{"const", "const", "fail"})
			v := genTyped(r, kind)
			n.CoVal = &v
		}
	case "struct":
		n.Extra = r.P(0.1)
		n.Embed = r.P(0.06)
		nf := 1 + r.Intn(c.MaxFields)
		used := map[string]bool{}
		dashed := false
		for i := 0; i < nf; i++ {
			key := Pick(r, keyVocab)
			if used[GoName(key)] {
				continue
			}
			used[GoName(key)] = true
			f := &Field{Key: key, N: GenNode(r, c, depth+1, false)}
			if r.P(c.PTags) {
				for _, tn := range []string{"json", "form", "query", "env", "zog"} {
					if r.P(0.35) {
						tv := tn[:1] + "_" + key
						if r.P(0.1) {
							tv = Pick(r, []string{tn[:1] + "," + key, tn[:1] + " " + key, key + ",omitempty", tn[:1] + "-" + key, "é" + key,
								"2" + tn[:1] + "_" + key, strconv.Itoa(2000 + 10*len(key) + int(key[0])%10), "-"}) // digit-leading and all-digit keys are keys, not positions; so is "-"
							if tv == "-" {
								// one field per struct at most: two fields named "-" in one source would be one member
								if dashed {
									tv = tn[:1] + "_" + key
								}
								dashed = true
							}
							if c.EmptyTags && r.P(0.3) {
								tv = "" // names the field "": legal, but two such fields of one struct collide
							}
						}
						f.Tags = append(f.Tags, KV{tn, VS(tv)})
					}
				}
				if r.P(0.15) {
					// tags of other packages, some with names that end like a source's: none of the library's business
					ft := Pick(r, []KV{{"conform", VS("trim")}, {"myjson", VS("n")}, {"xform", VS("xf")}, {"dbquery", VS("q")}, {"zogx", VS("zx")},
						{"validate", VS("required")}, {"my_env", VS("E")}, {"db", VS("json:\"col\"")}})
					at := r.Intn(len(f.Tags) + 1)
					f.Tags = append(f.Tags[:at:at], append([]KV{ft}, f.Tags[at:]...)...)
				}
			}
			n.Fields = append(n.Fields, f)
		}
		if r.P(c.StructTests) {
			genTests(r, c, n)
		}
		genPTs(r, c, n)
	case "slice":
		n.Req = r.P(c.PReq)
		if !n.Req && r.P(0.12) {
			n.OptCall = true
		}
		genReqOpt(r, c, n)
		n.Elem = GenNode(r, c, depth+1, false)
		if r.P(c.PDef) && n.Elem.IsPrim() {
			l := VL()
			ne := 1 + r.Intn(c.MaxElems)
			if r.P(0.15) {
				ne = 0 // an empty list as the default
			}
			for i := 0; i < ne; i++ {
				l.L = append(l.L, genTyped(r, n.Elem.Kind))
			}
			n.Def = &l
		}
		genTests(r, c, n)
		genPTs(r, c, n)
		if c.Coercers && n.Elem.IsPrim() && r.P(0.12) {
			// z.Slice(elem, z.WithCoercer(f)): what a non-list input becomes
			n.Coercer = Pick(r, []string{"const", "const", "fail"})
			l := VL()
			for i := 0; i < 1+r.Intn(2); i++ {
				l.L = append(l.L, genTyped(r, n.Elem.Kind))
			}
			n.CoVal = &l
		}
	case "ptr":
		n.Req = r.P(c.PReq)
		genReqOpt(r, c, n)
		ik := Pick(r, []string{"string", "int", "struct", "slice", "bool"})
		if c.has("pre") && r.P(0.15) {
			ik = "pre"
		}
		if r.P(0.08) && depth < 6 {
			ik = "ptr"
		}
		if depth >= c.MaxDepth && (ik == "struct" || ik == "slice") {
			ik = "string"
		}
		n.Elem = genKind(r, c, ik, depth+1)
	case "custom":
		n.CT = Pick(r, []string{"string", "int"})
		n.Tests = []TestSpec{{T: "custom", Mod: int64(Pick(r, []int{0, 1, 2, 3})), Code: "cust"}}
		if n.Tests[0].Mod > 1 {
			n.Tests[0].Rem = int64(r.Intn(int(n.Tests[0].Mod)))
		}
	case "pre":
		n.CT = "any_str"
		n.Elem = genKind(r, c, "string", depth+1)
		n.Elem.W = "" // the preprocess function returns a plain string
		if depth > 0 && r.P(0.2) {
			// Preprocess in front of a pointer schema (destination *string); not usable at top level
			n.Elem = &Node{Kind: "ptr", Req: r.P(0.5), Elem: n.Elem}
		}
	}
	return n
}

// ---------------------------------------------------------------------------
// Inputs

// strings that are empty after trimming whitespace (strings.TrimSpace trims Unicode White_Space, not only ASCII)
var absentForms = []Val{VNil(), VS(""), VS(" "), VS("\t\n "), VS("\u00a0"), VS("\u3000 "), VS("\t\u2003\u0085"), VS("\v\f\r")}

// GenParseInput draws a logical record for node n (keyed by schema keys).
// missing=true means "leave the key out".
func GenParseInput(r *Rng, c *GenCfg, n *Node) (v Val, missing bool) {
	if r.P(c.PAbsent) && n.Kind != "custom" {
		if r.P(0.4) {
			return Val{}, true
		}
		return Pick(r, absentForms), false
	}
	switch n.Kind {
	case "string", "int", "float", "bool", "time":
		if r.P(c.PBadType) {
			return genBad(r, n.Kind), false
		}
		var tv Val
		if r.P(c.PValid) {
			tv = genSatisfying(r, n)
		} else {
			tv = genTypedFor(r, n)
		}
		if c.RawStrings && n.Kind == "string" && r.P(0.05) {
			// a Go string is bytes: latin-1 text, a truncated sequence, a BOM-like prefix come through unchanged
			return VS(Pick(r, rawStrings)), false
		}
		if c.BigInts && n.Kind == "int" && n.W == "64" && r.P(0.15) {
			// not representable as a float64: an int64 must come through unchanged
			bv := VI(Pick(r, []int64{9007199254740993, -9007199254740993, 9223372036854775807, 1152921504606846977}))
			if r.P(0.6) {
				bv.S = "64" // handed over as an int64, the way a caller holding int64 data does
			}
			return bv, false
		}
		if c.NoCoerceVariants {
			return tv, false
		}
		rv := representation(r, n.Kind, tv)
		if c.Widths && r.P(0.2) {
			// a caller holding sized numbers passes them as they are: int64 / int32 / float32 values
			switch {
			case rv.K == "i" && n.Kind == "int" && rv.I > -1<<31 && rv.I < 1<<31:
				rv.S = Pick(r, []string{"64", "32"})
			case rv.K == "f" && n.Kind == "float" && float64(float32(rv.F)) == rv.F:
				rv.S = "32"
			}
		}
		return rv, false
	case "struct":
		if r.P(c.PBadType / 2) {
			return Pick(r, []Val{VI(5), VS("str"), VL(VS("x")), VB(true)}), false
		}
		m := VM()
		if r.P(0.03) {
			return m, false // `{}`: a present record all of whose members are missing
		}
		for _, f := range n.Fields {
			fv, miss := GenParseInput(r, c, f.N)
			if !miss {
				m.M = append(m.M, KV{f.Key, fv})
			}
		}
		if r.P(0.06) && len(n.Fields) > 0 {
			// keys that differ from a schema key only by case are other keys
			f := Pick(r, n.Fields)
			if fv, miss := GenParseInput(r, c, f.N); !miss && f.N.IsPrim() {
				for _, variant := range []string{strings.ToUpper(f.Key), strings.ToLower(f.Key), strings.Title(strings.ToLower(f.Key))} {
					dup := variant == f.Key
					for _, ff := range n.Fields {
						if ff.Key == variant {
							dup = true
						}
					}
					if !dup && r.P(0.7) {
						m.M = append(m.M, KV{variant, fv})
						fv, _ = GenParseInput(r, c, f.N)
					}
				}
			}
		}
		// permute insertion order
		for i := len(m.M) - 1; i > 0; i-- {
			j := r.Intn(i + 1)
			m.M[i], m.M[j] = m.M[j], m.M[i]
		}
		return m, false
	case "slice":
		if r.P(c.PBadType/2) && n.Coercer == "" {
			// the qs/PHP spelling of a list is a record, not a list: one value like any other (boxed), the same on every run
			m := VM()
			for _, k := range Pick(r, [][]string{{"0", "7", "9"}, {"0", "1", "2"}, {"1", "01", "5"}, {"3"}}) {
				ev, _ := GenParseInput(r, &GenCfg{PValid: c.PValid, NoCoerceVariants: true}, n.Elem)
				if ev.IsNil() {
					ev = VS("x")
				}
				m.M = append(m.M, KV{k, ev})
			}
			return m, false
		}
		if (r.P(0.08) || (n.Coercer != "" && r.P(0.6))) && n.Elem.IsPrim() {
			// scalar boxing
			ev, _ := GenParseInput(r, &GenCfg{PValid: c.PValid, NoCoerceVariants: true}, n.Elem)
			if !ev.IsNil() && !(ev.K == "s" && isBlank(ev.S)) {
				return ev, false
			}
		}
		l := VL()
		ne := r.Intn(c.MaxElems + 1)
		if n.Elem.IsPrim() && r.P(0.03) {
			// long lists: two- and three-digit positions
			ne = Pick(r, []int{11, 12, 13, 65, 66, 101, 111})
		}
		if n.Elem.Kind == "ptr" && n.Elem.Elem.IsPrim() && r.P(0.15) {
			// longer lists of optional elements, some of them absent
			ne = Pick(r, []int{8, 9, 12, 16, 17, 33})
		}
		for i := 0; i < ne; i++ {
			ev, miss := GenParseInput(r, c, n.Elem)
			if miss {
				ev = VNil()
			}
			l.L = append(l.L, ev)
		}
		return l, false
	case "ptr":
		return GenParseInput(r, &GenCfg{MaxElems: c.MaxElems, PValid: c.PValid, PBadType: c.PBadType, NoCoerceVariants: c.NoCoerceVariants}, n.Elem)
	case "custom":
		if r.P(c.PBadType + 0.05) {
			if r.P(0.3) {
				return Val{}, true
			}
			if n.CT != "int" && r.P(0.3) {
				return VI(int64(Pick(r, []int{65, 66, 8364}))), false // convertible in Go (a rune), but not a string
			}
			if n.CT == "int" && r.P(0.3) {
				return VF(Pick(r, []float64{2, 2.9})), false // convertible in Go, but not an int
			}
			return Pick(r, []Val{VB(true), VF(1.5), VNil()}), false
		}
		if n.CT == "int" {
			return genTyped(r, "int"), false
		}
		return genTyped(r, "string"), false
	case "pre":
		if r.P(0.1) {
			return VS("ERR" + Pick(r, strDomain)), false
		}
		if r.P(0.1) {
			return VS("n/a"), false // present, but preprocessed into an absent-looking value
		}
		iv, _ := GenParseInput(r, &GenCfg{PValid: c.PValid, NoCoerceVariants: true}, n.Elem)
		if iv.K == "s" && r.P(0.3) {
			iv.S = " " + iv.S + " "
		}
		return iv, false
	}
	return VNil(), false
}

func isBlank(s string) bool {
	for _, c := range s {
		if c != ' ' && c != '\t' && c != '\n' && c != '\r' {
			return false
		}
	}
	return true
}

func genBad(r *Rng, kind string) Val {
	switch kind {
	case "int":
		// Go literal syntax is not a decimal number
		return Pick(r, []Val{VS("abc"), VL(VS("x"), VS("y")), VS("12x"), VS("0x1f"), VS("1_000"), VS("0b11"), VS("0o17")})
	case "float":
		return Pick(r, []Val{VS("abc"), VL(VS("x"), VS("y")), VS("12x")})
	case "bool":
		return Pick(r, []Val{VS("maybe"), VI(2), VL(VB(true), VB(false))})
	case "time":
		return Pick(r, []Val{VS("not-a-time"), VB(true), VS("2024-13-45"), VF(1700000000), VF(12), VF(1.5)})
	}
	// strings accept anything
	return Pick(r, []Val{VI(12), VB(true), VF(1.5)})
}

func genSatisfying(r *Rng, n *Node) Val {
	var last Val
	for i := 0; i < 12; i++ {
		v := genTypedFor(r, n)
		last = v
		ok := true
		mv := typedVal(n, v)
		for _, t := range n.Tests {
			if !TestPass(n, t, mv) {
				ok = false
				break
			}
		}
		if ok {
			return v
		}
	}
	return last
}

// representation picks one of the documented input encodings of a typed value.
func representation(r *Rng, kind string, tv Val) Val {
	switch kind {
	case "string":
		return tv
	case "int":
		switch r.Intn(4) {
		case 0:
			if tv.I >= 0 && r.P(0.2) {
				return VS(Pick(r, []string{"0", "00"}) + strconv.FormatInt(tv.I, 10)) // zero-padded decimal
			}
			return VS(strconv.FormatInt(tv.I, 10))
		case 1:
			return VF(float64(tv.I))
		}
		return tv
	case "float":
		if r.P(0.04) {
			return VS(Pick(r, []string{"NaN", "Inf", "-Inf", "+Inf"}))
		}
		switch r.Intn(4) {
		case 0:
			return VS(strconv.FormatFloat(tv.F, 'g', -1, 64))
		case 1:
			if tv.F == float64(int64(tv.F)) {
				return VI(int64(tv.F))
			}
		}
		return tv
	case "bool":
		switch r.Intn(5) {
		case 0:
			if tv.B {
				return VS(Pick(r, []string{"true", "on", "1"}))
			}
			return VS(Pick(r, []string{"false", "off", "0"}))
		case 1:
			if tv.B {
				return VI(1)
			}
			return VI(0)
		}
		return tv
	case "time":
		switch r.Intn(3) {
		case 0:
			return VS(tv.S)
		case 1:
			return VI(MustTime(tv.S).Unix())
		}
		return tv
	}
	return tv
}

// GenValidateInput draws a value of the destination type (as a Val keyed by
// schema keys). full=true: no zero leaf, no empty slice, no nil pointer.
func GenValidateInput(r *Rng, c *GenCfg, n *Node, full bool) Val {
	switch n.Kind {
	case "string", "int", "float", "bool", "time":
		if !full && r.P(c.PAbsent) {
			return VNil()
		}
		var v Val
		if r.P(c.PValid) {
			v = genSatisfying(r, n)
		} else {
			v = genTypedFor(r, n)
		}
		if full && validateAbsent(n, MIn{V: v}) {
			v = nonZeroTyped(r, n.Kind)
		}
		if c.RawStrings && n.Kind == "string" && r.P(0.05) {
			v = VS(Pick(r, rawStrings))
		}
		if c.InfFloats && n.Kind == "float" && r.P(0.05) {
			v = Val{K: "f", S: Pick(r, []string{"+inf", "-inf"})} // a legitimate, non-zero value of the type
		}
		if c.BigInts && n.Kind == "int" && n.W == "64" && r.P(0.15) {
			v = VI(Pick(r, []int64{9007199254740993, -9007199254740993, 9223372036854775807, 1152921504606846977}))
			if r.P(0.6) {
				v.S = "64"
			}
		}
		return v
	case "custom":
		if n.CT == "int" {
			if full {
				return nonZeroTyped(r, "int")
			}
			return genTyped(r, "int")
		}
		return genTyped(r, "string")
	case "struct":
		m := VM()
		for _, f := range n.Fields {
			m.M = append(m.M, KV{f.Key, GenValidateInput(r, c, f.N, full)})
		}
		return m
	case "slice":
		if !full && r.P(c.PAbsent) {
			if r.P(0.5) {
				return VNil()
			}
			return VL()
		}
		l := VL()
		ne := 1 + r.Intn(c.MaxElems)
		if n.Elem.IsPrim() && r.P(0.03) {
			ne = Pick(r, []int{11, 12, 13, 65, 66, 101, 111})
		}
		for i := 0; i < ne; i++ {
			l.L = append(l.L, GenValidateInput(r, c, n.Elem, full))
		}
		return l
	case "ptr":
		if !full && r.P(c.PAbsent+0.1) {
			return VNil()
		}
		v := GenValidateInput(r, c, n.Elem, full)
		if v.IsNil() {
			// a non-nil pointer to a zero value: representable only for leaves; keep it simple
			return nonZeroTyped(r, leafKind(n.Elem))
		}
		return v
	case "pre":
		v := GenValidateInput(r, c, n.Elem, full)
		if n.CT != "str_list" && v.K == "s" && r.P(0.1) {
			v.S = "ERR" + v.S // the preprocess function returns an error for this value, in Validate as in Parse
		}
		return v
	}
	return VNil()
}

func leafKind(n *Node) string {
	for n.Kind == "ptr" || n.Kind == "pre" {
		n = n.Elem
	}
	if n.IsPrim() {
		return n.Kind
	}
	if n.Kind == "custom" && n.CT == "int" {
		return "int"
	}
	return "string"
}
