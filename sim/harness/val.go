package harness

import (
	"encoding/hex"
	"encoding/json"
	"errors"
	"fmt"
	"math"
	"reflect"
	"regexp"
	"sort"
	"strconv"
	"strings"
	"time"
	"unicode/utf8"
)

// ---------------------------------------------------------------------------
// PRNG: splitmix64. One integer decides everything.

type Rng struct{ s uint64 }

func NewRng(seed uint64) *Rng { return &Rng{s: seed} }

func Mix(a, b uint64) uint64 {
	z := a + 0x9e3779b97f4a7c15*(b+1)
	z = (z ^ (z >> 30)) * 0xbf58476d1ce4e5b9
	z = (z ^ (z >> 27)) * 0x94d049bb133111eb
	return z ^ (z >> 31)
}

func (r *Rng) U64() uint64 {
	r.s += 0x9e3779b97f4a7c15
	z := r.s
	z = (z ^ (z >> 30)) * 0xbf58476d1ce4e5b9
	z = (z ^ (z >> 27)) * 0x94d049bb133111eb
	return z ^ (z >> 31)
}

func (r *Rng) Intn(n int) int {
	if n <= 1 {
		return 0
	}
	return int(r.U64() % uint64(n))
}

func (r *Rng) Float() float64   { return float64(r.U64()>>11) / float64(1<<53) }
func (r *Rng) P(p float64) bool { return r.Float() < p }
func (r *Rng) Fork() *Rng       { return NewRng(r.U64()) }

func Pick[T any](r *Rng, xs []T) T { return xs[r.Intn(len(xs))] }

// ---------------------------------------------------------------------------
// Val: a JSON-serialisable description of an input or schema-owned value.

type KV struct {
	K string `json:"k"`
	V Val    `json:"v"`
}

// K: "nil" "s" "i" "f" "b" "t" "l" "m" "x"(exotic Go value, S names the recipe)
type Val struct {
	K string  `json:"k"`
	S string  `json:"s,omitempty"`
	I int64   `json:"i,omitempty"`
	F float64 `json:"f,omitempty"`
	B bool    `json:"b,omitempty"`
	L []Val   `json:"l,omitempty"`
	M []KV    `json:"m,omitempty"`
	// Hex carries S in replay files when S is not valid UTF-8 (JSON text cannot); always empty in memory.
	Hex string `json:"hex,omitempty"`
}

type valJSON Val

func (v Val) MarshalJSON() ([]byte, error) {
	a := valJSON(v)
	if !utf8.ValidString(v.S) {
		a.Hex, a.S = hex.EncodeToString([]byte(v.S)), ""
	}
	return json.Marshal(a)
}

func (v *Val) UnmarshalJSON(b []byte) error {
	var a valJSON
	if err := json.Unmarshal(b, &a); err != nil {
		return err
	}
	if a.Hex != "" {
		raw, err := hex.DecodeString(a.Hex)
		if err != nil {
			return err
		}
		a.S, a.Hex = string(raw), ""
	}
	*v = Val(a)
	return nil
}

// Fl is the float a Val of kind f stands for (JSON cannot carry infinities in F: S marks them).
func (v Val) Fl() float64 {
	switch v.S {
	case "+inf":
		return math.Inf(1)
	case "-inf":
		return math.Inf(-1)
	}
	return v.F
}

func VNil() Val           { return Val{K: "nil"} }
func VS(s string) Val     { return Val{K: "s", S: s} }
func VI(i int64) Val      { return Val{K: "i", I: i} }
func VF(f float64) Val    { return Val{K: "f", F: f} }
func VB(b bool) Val       { return Val{K: "b", B: b} }
func VT(s string) Val     { return Val{K: "t", S: s} }
func VL(l ...Val) Val     { return Val{K: "l", L: l} }
func VM(kv ...KV) Val     { return Val{K: "m", M: kv} }
func (v Val) IsNil() bool { return v.K == "nil" || v.K == "" }
func (v Val) Clone() Val {
	c := v
	if v.L != nil {
		c.L = make([]Val, len(v.L))
		for i := range v.L {
			c.L[i] = v.L[i].Clone()
		}
	}
	if v.M != nil {
		c.M = make([]KV, len(v.M))
		for i := range v.M {
			c.M[i] = KV{v.M[i].K, v.M[i].V.Clone()}
		}
	}
	return c
}

func (v Val) Get(key string) (Val, bool) {
	if v.K != "m" {
		return Val{}, false
	}
	for i := len(v.M) - 1; i >= 0; i-- {
		if v.M[i].K == key {
			return v.M[i].V, true
		}
	}
	return Val{}, false
}

func MustTime(s string) time.Time {
	t, err := time.Parse(time.RFC3339, s)
	if err != nil {
		panic("harness: bad time literal " + s)
	}
	return t
}

// ToGo converts to the Go value a caller would hand to Parse (maps are
// map[string]any built in listed order, lists are []any).
func (v Val) ToGo() any {
	switch v.K {
	case "", "nil":
		return nil
	case "s":
		return v.S
	case "i":
		switch v.S { // the Go type a caller holding sized integers passes
		case "64":
			return int64(v.I)
		case "32":
			return int32(v.I)
		}
		return int(v.I)
	case "f":
		if v.S == "32" {
			return float32(v.F)
		}
		return v.Fl()
	case "b":
		return v.B
	case "t":
		return MustTime(v.S)
	case "l":
		out := make([]any, len(v.L))
		for i := range v.L {
			out[i] = v.L[i].ToGo()
		}
		return out
	case "m":
		out := make(map[string]any, len(v.M))
		for _, kv := range v.M {
			out[kv.K] = kv.V.ToGo()
		}
		return out
	case "tl": // typed slice ([]string, []int, []float64, []bool): S names the element kind; B: a nil slice of that type
		if v.B && len(v.L) == 0 {
			switch v.S {
			case "int":
				return []int(nil)
			case "float":
				return []float64(nil)
			case "bool":
				return []bool(nil)
			default:
				return []string(nil)
			}
		}
		switch v.S {
		case "int":
			out := make([]int, len(v.L))
			for i := range v.L {
				out[i] = int(v.L[i].I)
			}
			return out
		case "float":
			out := make([]float64, len(v.L))
			for i := range v.L {
				out[i] = numVal(v.L[i])
			}
			return out
		case "bool":
			out := make([]bool, len(v.L))
			for i := range v.L {
				out[i] = v.L[i].B
			}
			return out
		default:
			out := make([]string, len(v.L))
			for i := range v.L {
				out[i] = v.L[i].S
			}
			return out
		}
	case "sl": // []string, the way url.Values delivers a repeated parameter
		out := make([]string, len(v.L))
		for i := range v.L {
			out[i] = v.L[i].S
		}
		return out
	case "x":
		return Exotic(v.S)
	}
	panic("harness: bad Val kind " + v.K)
}

// String is a compact rendering for logs and classes.
func (v Val) String() string {
	switch v.K {
	case "", "nil":
		return "nil"
	case "s":
		return strconv.Quote(v.S)
	case "i":
		if v.S != "" {
			return strconv.FormatInt(v.I, 10) + "i" + v.S
		}
		return strconv.FormatInt(v.I, 10)
	case "f":
		return strconv.FormatFloat(v.F, 'g', -1, 64) + "f" + v.S
	case "b":
		return strconv.FormatBool(v.B)
	case "t":
		return "t" + v.S
	case "l":
		parts := make([]string, len(v.L))
		for i := range v.L {
			parts[i] = v.L[i].String()
		}
		return "[" + strings.Join(parts, ",") + "]"
	case "m":
		parts := make([]string, len(v.M))
		for i := range v.M {
			parts[i] = v.M[i].K + ":" + v.M[i].V.String()
		}
		return "{" + strings.Join(parts, ",") + "}"
	case "tl":
		parts := make([]string, len(v.L))
		for i := range v.L {
			parts[i] = v.L[i].String()
		}
		if v.B && len(v.L) == 0 {
			return "tl:" + v.S + "(nil)"
		}
		return "tl:" + v.S + "[" + strings.Join(parts, ",") + "]"
	case "sl":
		parts := make([]string, len(v.L))
		for i := range v.L {
			parts[i] = v.L[i].String()
		}
		return "sl[" + strings.Join(parts, ",") + "]"
	case "x":
		return "x:" + v.S
	}
	return "?"
}

// ---------------------------------------------------------------------------
// Canon: address-free canonical rendering of arbitrary Go values (destinations,
// issue values, params). Pointers are dereferenced; maps are sorted.

func Canon(x any) string {
	var sb strings.Builder
	canon(&sb, reflect.ValueOf(x), 0)
	return sb.String()
}

func CanonV(v reflect.Value) string {
	var sb strings.Builder
	canon(&sb, v, 0)
	return sb.String()
}

var timeType = reflect.TypeOf(time.Time{})

func canon(sb *strings.Builder, v reflect.Value, depth int) {
	if !v.IsValid() {
		sb.WriteString("nil")
		return
	}
	if depth > 12 {
		sb.WriteString("<deep>")
		return
	}
	if v.Type() == timeType {
		if v.CanInterface() {
			t := v.Interface().(time.Time)
			if t.IsZero() {
				sb.WriteString("t0")
			} else {
				sb.WriteString("t" + t.UTC().Format(time.RFC3339Nano))
			}
		} else {
			sb.WriteString("t?")
		}
		return
	}
	switch v.Kind() {
	case reflect.Interface:
		if v.IsNil() {
			sb.WriteString("nil")
			return
		}
		canon(sb, v.Elem(), depth+1)
	case reflect.Pointer:
		if v.IsNil() {
			sb.WriteString("nilptr")
			return
		}
		sb.WriteString("&")
		canon(sb, v.Elem(), depth+1)
	case reflect.String:
		sb.WriteString(strconv.Quote(v.String()))
	case reflect.Bool:
		sb.WriteString(strconv.FormatBool(v.Bool()))
	case reflect.Int, reflect.Int8, reflect.Int16, reflect.Int32, reflect.Int64:
		sb.WriteString(strconv.FormatInt(v.Int(), 10))
	case reflect.Uint, reflect.Uint8, reflect.Uint16, reflect.Uint32, reflect.Uint64, reflect.Uintptr:
		sb.WriteString(strconv.FormatUint(v.Uint(), 10))
	case reflect.Float32, reflect.Float64:
		f := v.Float()
		if math.IsNaN(f) {
			sb.WriteString("NaN")
		} else {
			sb.WriteString(strconv.FormatFloat(f, 'g', -1, 64))
			sb.WriteString("f")
		}
	case reflect.Slice:
		if v.IsNil() {
			sb.WriteString("nilslice")
			return
		}
		fallthrough
	case reflect.Array:
		sb.WriteString("[")
		for i := 0; i < v.Len(); i++ {
			if i > 0 {
				sb.WriteString(",")
			}
			canon(sb, v.Index(i), depth+1)
		}
		sb.WriteString("]")
	case reflect.Map:
		if v.IsNil() {
			sb.WriteString("nilmap")
			return
		}
		type ent struct{ k, v string }
		var ents []ent
		it := v.MapRange()
		for it.Next() {
			var kb, vb strings.Builder
			canon(&kb, it.Key(), depth+1)
			canon(&vb, it.Value(), depth+1)
			ents = append(ents, ent{kb.String(), vb.String()})
		}
		sort.Slice(ents, func(i, j int) bool { return ents[i].k < ents[j].k })
		sb.WriteString("{")
		for i, e := range ents {
			if i > 0 {
				sb.WriteString(",")
			}
			sb.WriteString(e.k + ":" + e.v)
		}
		sb.WriteString("}")
	case reflect.Struct:
		sb.WriteString("{")
		t := v.Type()
		// fields in name order: the same record may live in struct types that declare them in different orders
		idx := make([]int, v.NumField())
		for i := range idx {
			idx[i] = i
		}
		sort.Slice(idx, func(a, b int) bool { return t.Field(idx[a]).Name < t.Field(idx[b]).Name })
		for n, i := range idx {
			if n > 0 {
				sb.WriteString(",")
			}
			sb.WriteString(t.Field(i).Name + ":")
			canon(sb, v.Field(i), depth+1)
		}
		sb.WriteString("}")
	case reflect.Func:
		if v.IsNil() {
			sb.WriteString("nilfunc")
		} else {
			sb.WriteString("func")
		}
	case reflect.Chan:
		sb.WriteString("chan")
	default:
		sb.WriteString(fmt.Sprintf("<%s>", v.Kind()))
	}
}

// ---------------------------------------------------------------------------
// Exotic Go values for the "any Go value" half of C06 (named recipes so that
// worlds stay JSON).

type NamedMap map[string]any
type NamedStrMap map[string]string
type NamedSlice []any
type NamedString string
type NamedInt int
type privStruct struct {
	Name string
	age  int
}
type PubStruct struct {
	Name string
	Age  int
	Tags []string
}
type embedStruct struct {
	PubStruct
	extra string
}

// a struct whose promoted fields (Name, Age, Tags) live behind a nil embedded pointer
type embedNilPtr struct {
	*PubStruct
	Zip int
}

func Exotic(name string) any {
	switch name {
	case "named_map":
		return NamedMap{"a": "x", "b": 1, "name": "bob"}
	case "named_map_empty":
		return NamedMap{}
	case "named_strmap":
		return NamedStrMap{"a": "x", "name": "bob"}
	case "named_slice":
		return NamedSlice{"a", 1}
	case "named_string":
		return NamedString("abc")
	case "named_int":
		return NamedInt(5)
	case "map_int_key":
		return map[int]any{1: "a"}
	case "map_named_key":
		return map[NamedString]any{"a": 1}
	case "map_str_int":
		return map[string]int{"a": 1, "age": 3}
	case "map_str_int_empty":
		return map[string]int{}
	case "map_str_str":
		return map[string]string{"a": "1", "name": "x"}
	case "map_str_f64":
		return map[string]float64{"a": 1.5}
	case "map_str_bool":
		return map[string]bool{"a": true}
	case "map_str_slice":
		return map[string][]string{"a": {"x"}}
	case "map_str_i64":
		return map[string]int64{"a": 1}
	case "map_nil":
		return map[string]any(nil)
	case "map_empty":
		return map[string]any{}
	case "priv_struct":
		return privStruct{Name: "n", age: 3}
	case "priv_struct_ptr":
		return &privStruct{Name: "n", age: 3}
	case "pub_struct":
		return PubStruct{Name: "n", Age: 3, Tags: []string{"t"}}
	case "pub_struct_ptr":
		return &PubStruct{Name: "n", Age: 3}
	case "embed_struct":
		return embedStruct{PubStruct: PubStruct{Name: "e"}, extra: "x"}
	case "map_str_error":
		return map[string]error{"a": errors.New("x"), "name": nil}
	case "map_str_stringer":
		return map[string]fmt.Stringer{"a": time.Second, "Tags": nil}
	case "map_str_iface":
		return map[string]interface{ Error() string }{"a": errors.New("y")}
	case "embed_nil_ptr":
		return embedNilPtr{Zip: 7}
	case "embed_nil_ptr_ptr":
		return &embedNilPtr{Zip: 7}
	case "typed_nil_ptr":
		return (*PubStruct)(nil)
	case "typed_nil_strptr":
		return (*string)(nil)
	case "typed_nil_slice":
		return []string(nil)
	case "typed_nil_anyslice":
		return []any(nil)
	case "typed_nil_map":
		return map[string]any(nil)
	case "ptr_ptr_string":
		s := "abc"
		p := &s
		return &p
	case "ptr_ptr_ptr_int":
		i := 5
		p := &i
		pp := &p
		return &pp
	case "ptr_to_nil_ptr_struct":
		var u *PubStruct
		return &u
	case "ptr_ptr_to_nil_map":
		var m *map[string]any
		pm := &m
		return &pm
	case "ptr_to_nil_ptr_string":
		var sp *string
		return &sp
	case "ptr_to_nil_slice":
		var sl []string
		return &sl
	case "ptr_to_nil_map":
		var m map[string]any
		return &m
	case "ptr_map":
		m := map[string]any{"a": "x", "name": "bob"}
		return &m
	case "ptr_nil_iface":
		var x any
		return &x
	case "nan":
		return math.NaN()
	case "inf":
		return math.Inf(1)
	case "neginf":
		return math.Inf(-1)
	case "huge_float":
		return 1e300
	case "huge_int":
		return int64(math.MaxInt64)
	case "min_int":
		return int64(math.MinInt64)
	case "uint64_max":
		return uint64(math.MaxUint64)
	case "int8":
		return int8(-3)
	case "uint":
		return uint(7)
	case "float32":
		return float32(1.5)
	case "complex":
		return complex(1, 2)
	case "array":
		return [2]string{"a", "b"}
	case "array_empty":
		return [0]int{}
	case "chan":
		return make(chan int)
	case "func":
		return func() {}
	case "bad_utf8":
		return "a\xff\xfeb"
	case "nul_string":
		return "a\x00b"
	case "bytes":
		return []byte("abc")
	case "rune":
		return 'x'
	case "str_slice":
		return []string{"a", "b"}
	case "int_slice":
		return []int{1, 2}
	case "slice_of_maps":
		return []map[string]any{{"a": "x"}}
	case "slice_of_nil":
		return []any{nil, nil}
	case "nested_empty_slices":
		return []any{[]any{}, []any{[]any{}}}
	case "time_zero":
		return time.Time{}
	case "time_ptr":
		t := MustTime("2024-01-02T03:04:05Z")
		return &t
	case "duration":
		return time.Second
	case "error":
		return fmt.Errorf("boom")
	case "stringer_nilptr":
		return (*time.Time)(nil)
	case "struct_empty":
		return struct{}{}
	case "uintptr":
		return uintptr(0)
	case "reflect_value":
		return reflect.ValueOf(1)
	}
	panic("harness: unknown exotic " + name)
}

var addrRx = regexp.MustCompile(`0x[0-9a-f]{5,}`)

// ExoticVolatile: does printing the value (what a string coercion does) show an address? Then everything the
// library computes from it depends on where the allocator put it, and the world is replayed by verdict only.
func ExoticVolatile(name string) bool {
	if r, ok := exoticVolatileMemo[name]; ok {
		return r
	}
	r := exoticVolatile(name)
	exoticVolatileMemo[name] = r
	return r
}

var exoticVolatileMemo = map[string]bool{}

func exoticVolatile(name string) bool {
	v := Exotic(name)
	if v == nil {
		return false
	}
	switch reflect.ValueOf(v).Kind() {
	case reflect.Chan, reflect.Func, reflect.UnsafePointer:
		return true
	}
	return addrRx.MatchString(fmt.Sprintf("%v|%+v", v, v))
}

var ExoticNames = []string{
	"named_map", "named_map_empty", "named_strmap", "named_slice", "named_string", "named_int", "map_int_key", "map_named_key",
	"map_str_int", "map_str_int_empty", "map_str_str", "map_str_f64", "map_str_bool", "map_str_slice", "map_str_i64", "map_nil", "map_empty",
	"priv_struct", "priv_struct_ptr", "pub_struct", "pub_struct_ptr", "embed_struct", "typed_nil_ptr", "typed_nil_strptr",
	"typed_nil_slice", "typed_nil_anyslice", "typed_nil_map", "ptr_ptr_string", "ptr_ptr_ptr_int", "ptr_map", "ptr_nil_iface",
	"nan", "inf", "neginf", "huge_float", "huge_int", "min_int", "uint64_max", "int8", "uint", "float32", "complex",
	"array", "array_empty", "chan", "func", "bad_utf8", "nul_string", "bytes", "rune", "str_slice", "int_slice",
	"slice_of_maps", "slice_of_nil", "nested_empty_slices", "time_zero", "time_ptr", "duration", "error", "stringer_nilptr",
	"struct_empty", "uintptr", "reflect_value",
	"ptr_to_nil_ptr_struct", "ptr_ptr_to_nil_map", "ptr_to_nil_ptr_string", "ptr_to_nil_slice", "ptr_to_nil_map",
	"embed_nil_ptr", "embed_nil_ptr_ptr", "map_str_error", "map_str_stringer", "map_str_iface",
}
