package harness

import (
	"fmt"
	"reflect"
	"sort"
	"strconv"
	"strings"

	z "github.com/Oudwins/zog"
)

// C16 – Pick, Omit, Extend and Merge build independent schemas with set semantics.
//
// World: Schemas[0] is the base struct (with 0-5 struct-level tests/transforms so
// that their backing arrays have spare capacity), Schemas[1..] are field sets
// for Extend. Tasks[c] is client c's program of builder calls; the simulator
// interleaves the programs (one builder call = one step). After EVERY step
// every live schema is executed on probe inputs next to a schema written out by
// hand from the model (same field schema objects, same callbacks in order).

func init() {
	Register(&Scenario{ID: "C16", Gen: genC16, Run: runC16,
		Rule: "2-4 clients each run a program of Pick/Omit/Extend/Merge/TestFunc/PostTransform calls over a shared base struct schema (0-5 struct-level tests and transforms) and over each other's results; the simulator decides the interleaving of the programs; " +
			"after every step every live schema is compared, on two probe inputs, with a hand-built schema holding exactly the modelled fields, tests and transforms (field set, identities and order of the struct-level callbacks that ran, issues, destination); " +
			"non-trivial iff >=2 schemas derived from one base were later extended with tests/transforms by different clients; distinct by hash of (programs, interleaving decisions)"})
}

type c16cb struct {
	ID   int
	Kind string // test | pt
	Fail bool
	Path string // z.IssuePath of a struct-level test: where it reports, nothing more
}

type c16model struct {
	fields map[string]z.ZogSchema
	tests  []c16cb
	pts    []c16cb
	owner  int
	from   int // live index it was derived from (-1: base)
	ext    int // number of tests/transforms added after creation
}

type c16live struct {
	real *z.StructSchema
	m    *c16model
}

func genC16(r *Rng, tier string) *World {
	w := &World{Prop: "C16", Cfg: DrawDecCfg(r), Params: map[string]int{}}
	mk := func(prefix string, n int) *Node {
		s := &Node{Kind: "struct"}
		for i := 0; i < n; i++ {
			k := Pick(r, []string{"string", "int", "bool", "string", "int", "bool", "ptr-struct", "ptr-string", "struct", "slice"})
			f := &Node{Kind: k, Req: r.P(0.5)}
			inner := func() *Node {
				return &Node{Kind: "struct", Fields: []*Field{{Key: "x", N: &Node{Kind: "string", Req: r.P(0.5)}}, {Key: "y", N: &Node{Kind: "int", Def: &Val{K: "i", I: 3}}}}}
			}
			switch k {
			case "ptr-struct":
				// a field's own modifiers (NotNil, Required) travel with the field into every derived schema
				f = &Node{Kind: "ptr", Req: r.P(0.6), Elem: inner()}
			case "ptr-string":
				f = &Node{Kind: "ptr", Req: r.P(0.6), Elem: &Node{Kind: "string", Req: r.P(0.5)}}
			case "struct":
				f = inner()
			case "slice":
				f = &Node{Kind: "slice", Req: r.P(0.6), Elem: &Node{Kind: "string"}, Tests: []TestSpec{{T: "min", N: 1}}}
			}
			if r.P(0.5) {
				switch k {
				case "string":
					f.Tests = []TestSpec{{T: "min", N: int64(1 + r.Intn(4))}}
				case "int":
					f.Tests = []TestSpec{{T: "gt", N: int64(r.Intn(5))}}
				}
			}
			s.Fields = append(s.Fields, &Field{Key: prefix + strconv.Itoa(i), N: f})
		}
		return s
	}
	base := mk("b", 2+r.Intn(3))
	w.Schemas = append(w.Schemas, base)
	w.Params["base_tests"] = r.Intn(4)
	w.Params["base_pts"] = r.Intn(3)
	if r.P(0.3) {
		w.Params["nil_base"] = 1
	}
	for i := 0; i < 1+r.Intn(2); i++ {
		e := mk("e"+strconv.Itoa(i), 1+r.Intn(2))
		if r.P(0.4) {
			// override a base field with another schema of the same kind
			bf := Pick(r, base.Fields)
			ov := bf.N.Clone()
			ov.Req, ov.Tests = !bf.N.Req, nil
			e.Fields = append(e.Fields, &Field{Key: bf.Key, N: ov})
		}
		w.Schemas = append(w.Schemas, e)
	}
	nc := 2 + r.Intn(3)
	for c := 0; c < nc; c++ {
		var ops []Op
		n := 1 + r.Intn(4)
		for i := 0; i < n; i++ {
			op := Op{Kind: "build", Ref: r.Intn(8), Schema: r.Intn(8)}
			x := r.Float()
			switch {
			case i == 0 || x < 0.25:
				op.Arg = Pick(r, []string{"pick", "omit", "pick", "omit", "extend", "merge"})
			case x < 0.65:
				op.Arg = "test"
			case x < 0.85:
				op.Arg = "pt"
			default:
				op.Arg = Pick(r, []string{"pick", "omit", "extend", "merge"})
			}
			var keys []Val
			for _, f := range base.Fields {
				if r.P(0.5) {
					keys = append(keys, VS(f.Key))
				}
			}
			op.Input = VL(keys...)
			if r.P(0.3) {
				op.Collect = "map" // pass the keys as map[string]bool
			} else if r.P(0.3) {
				op.Collect = "mixed" // strings and maps mixed, with false entries
			}
			if r.P(0.3) {
				op.ErrAt = 1 // the added test fails / the transform is a plain observer
			}
			if op.Arg == "omit" && r.P(0.3) {
				op.ErrAt = 2 // Omit is also given keys the base does not have
			}
			ops = append(ops, op)
		}
		w.Tasks = append(w.Tasks, ops)
	}
	return w
}

type c16rec struct {
	calls []string
}

func runC16(x *X) *Violation {
	w := x.W
	if len(w.Schemas) == 0 {
		return nil
	}
	x.FreshRun("r/")
	rec := &c16rec{}
	// one object per field schema, shared by every schema that holds the field
	universe := map[string]*Node{}
	var order []string
	objs := map[string]z.ZogSchema{} // "<schema idx>/<key>"
	for si, s := range w.Schemas {
		id := 0
		s.Number(&id)
		for _, f := range s.Fields {
			objs[strconv.Itoa(si)+"/"+f.Key] = x.E.Build(f.N)
			if _, ok := universe[f.Key]; !ok {
				universe[f.Key] = f.N
				order = append(order, f.Key)
			}
		}
	}
	sort.Strings(order)
	var sfs []reflect.StructField
	for _, k := range order {
		sfs = append(sfs, reflect.StructField{Name: GoName(k), Type: TypeOf(universe[k])})
	}
	typ := reflect.StructOf(sfs)
	mkTest := func(cb c16cb) z.BoolTFunc {
		return func(val any, ctx z.Ctx) bool {
			rec.calls = append(rec.calls, "t"+strconv.Itoa(cb.ID))
			return !cb.Fail
		}
	}
	mkPT := func(cb c16cb) z.PostTransform {
		return func(val any, ctx z.Ctx) error {
			rec.calls = append(rec.calls, "p"+strconv.Itoa(cb.ID))
			return nil
		}
	}
	addCB := func(s *z.StructSchema, cb c16cb) {
		if cb.Kind == "test" && cb.Path != "" {
			s.TestFunc(mkTest(cb), z.IssueCode("t"+strconv.Itoa(cb.ID)), z.IssuePath(cb.Path))
		} else if cb.Kind == "test" {
			s.TestFunc(mkTest(cb), z.IssueCode("t"+strconv.Itoa(cb.ID)))
		} else {
			s.PostTransform(mkPT(cb))
		}
	}
	// base
	base := w.Schemas[0]
	bm := &c16model{fields: map[string]z.ZogSchema{}, from: -1, owner: -1}
	bs := z.Schema{}
	for _, f := range base.Fields {
		bs[f.Key] = objs["0/"+f.Key]
		bm.fields[f.Key] = objs["0/"+f.Key]
	}
	breal := z.Struct(bs)
	for i := 0; i < w.P("base_tests"); i++ {
		cb := c16cb{ID: 9000 + i, Kind: "test", Fail: i%2 == 1}
		if i%2 == 1 && len(base.Fields) > 0 {
			cb.Path = base.Fields[(i/2)%len(base.Fields)].Key // reports under a field's name; the field may be picked away later
		}
		addCB(breal, cb)
		bm.tests = append(bm.tests, cb)
	}
	for i := 0; i < w.P("base_pts"); i++ {
		cb := c16cb{ID: 9100 + i, Kind: "pt"}
		addCB(breal, cb)
		bm.pts = append(bm.pts, cb)
	}
	live := []*c16live{{real: breal, m: bm}}
	if w.P("nil_base") == 1 {
		// a field-less schema built from a nil map that only carries a struct-level test: valid, and a valid operand
		nb := z.Struct(nil)
		cb := c16cb{ID: 9200, Kind: "test", Fail: false}
		addCB(nb, cb)
		live = append(live, &c16live{real: nb, m: &c16model{fields: map[string]z.ZogSchema{}, tests: []c16cb{cb}, from: -1, owner: -1}})
	}

	// probe inputs: one mostly valid, one mostly absent
	probes := []map[string]any{{}, {}}
	for _, k := range order {
		switch universe[k].Kind {
		case "string":
			probes[0][k] = "hello"
		case "int":
			probes[0][k] = 7
		case "bool":
			probes[0][k] = true
		case "ptr":
			if universe[k].Elem.Kind == "struct" {
				probes[0][k] = map[string]any{"x": "px"}
			} else {
				probes[0][k] = "ps"
			}
		case "struct":
			probes[0][k] = map[string]any{"y": 4}
		case "slice":
			probes[0][k] = []any{"e1", "e2"}
		}
	}
	if len(order) > 0 {
		probes[1][order[0]] = probes[0][order[0]]
		probes[1]["unrelated"] = 1
	}

	exec := func(s *z.StructSchema, in map[string]any, tag string) (string, string) {
		rec.calls = nil
		dest := reflect.New(typ)
		x.R.OpTag = tag
		x.R.InOp = true
		var out string
		func() {
			defer func() {
				if p := recover(); p != nil {
					out = "panic: " + panicString(p)
				}
			}()
			m := s.Parse(in, dest.Interface())
			res := &Result{}
			res.fill(m)
			out = strings.Join(res.Fulls(), ";") + " first=" + fmt.Sprint(len(res.First))
		}()
		x.R.InOp = false
		x.Ops++
		out += " dest=" + CanonV(dest.Elem())
		return out, strings.Join(rec.calls, ",")
	}
	handBuilt := func(m *c16model) *z.StructSchema {
		sc := z.Schema{}
		for k, v := range m.fields {
			sc[k] = v
		}
		s := z.Struct(sc)
		for _, cb := range m.tests {
			addCB(s, cb)
		}
		for _, cb := range m.pts {
			addCB(s, cb)
		}
		return s
	}
	checkAll := func(step string) *Violation {
		for li, l := range live {
			hb := handBuilt(l.m)
			for pi, in := range probes {
				x.SetPhase("c/")
				x.Dec.Benign["c/"] = true
				r1, c1 := exec(l.real, in, "chk")
				r2, c2 := exec(hb, in, "chk'")
				if c1 != c2 {
					what := "struct-level-callbacks"
					return &Violation{Class: fmt.Sprintf("C16/derived-differs-from-handbuilt what=%s after=%s", what, strings.SplitN(step, " ", 2)[0]),
						Detail: fmt.Sprintf("after step %q live schema #%d (probe %d) ran callbacks [%s], its hand-built equivalent runs [%s]", step, li, pi, c1, c2)}
				}
				if r1 != r2 {
					return &Violation{Class: fmt.Sprintf("C16/derived-differs-from-handbuilt what=result after=%s", strings.SplitN(step, " ", 2)[0]),
						Detail: fmt.Sprintf("after step %q live schema #%d (probe %d): %s; hand-built: %s", step, li, pi, r1, r2)}
				}
			}
		}
		return nil
	}
	if v := checkAll("init"); v != nil {
		return v
	}
	// interleave the clients' programs
	pos := make([]int, len(w.Tasks))
	extMaps := map[int]z.Schema{}
	extendedBy := map[int]map[int]bool{} // base live index -> set of clients that extended a derivative
	cbid := 0
	for {
		var runnable []int
		for c := range w.Tasks {
			if pos[c] < len(w.Tasks[c]) {
				runnable = append(runnable, c)
			}
		}
		if len(runnable) == 0 {
			break
		}
		x.SetPhase("b/")
		c := runnable[x.Dec.Choose("sched.build", len(runnable))]
		op := w.Tasks[c][pos[c]]
		pos[c]++
		if op.Kind != "build" {
			continue
		}
		src := live[op.Ref%len(live)]
		srcIdx := op.Ref % len(live)
		var keys []string
		for _, k := range op.Input.L {
			if _, ok := src.m.fields[k.S]; ok {
				keys = append(keys, k.S)
			}
		}
		desc := fmt.Sprintf("%s client=%d src=#%d keys=%v", op.Arg, c, srcIdx, keys)
		x.Event("build " + desc)
		newm := func() *c16model {
			m := &c16model{fields: map[string]z.ZogSchema{}, owner: c, from: srcIdx}
			m.tests = append([]c16cb(nil), src.m.tests...)
			m.pts = append([]c16cb(nil), src.m.pts...)
			return m
		}
		var args []any
		if op.Collect == "map" {
			mm := map[string]bool{}
			for _, k := range keys {
				mm[k] = true
			}
			// a false entry must be ignored
			for _, k := range sortedKeys(src.m.fields) {
				if _, ok := mm[k]; !ok && len(mm) < 4 {
					mm[k] = false
					break
				}
			}
			args = []any{mm}
		} else {
			for _, k := range keys {
				args = append(args, k)
			}
			if op.Collect == "mixed" && len(keys) > 0 {
				// documented: map entries with a false value are ignored - also for a key an earlier argument named
				args = append(args, map[string]bool{keys[0]: false})
				if len(keys) > 1 {
					args = append([]any{map[string]bool{keys[len(keys)-1]: true}}, args...)
				}
			}
		}
		x.R.InOp = true
		var builderPanic, extArgBad string
		func() {
			defer func() {
				if p := recover(); p != nil {
					builderPanic = panicString(p)
				}
			}()
			switch op.Arg {
			case "pick":
				m := newm()
				for _, k := range keys {
					m.fields[k] = src.m.fields[k]
				}
				live = append(live, &c16live{real: src.real.Pick(args...), m: m})
			case "omit":
				// keys the base does not have (other spellings of existing keys among them) name nothing: no effect
				if op.ErrAt == 2 {
					dropping := map[string]bool{}
					for _, k := range keys {
						dropping[k] = true
					}
					for _, k := range sortedKeys(src.m.fields) {
						if !dropping[k] && src.m.fields[toggleFirst(k)] == nil {
							args = append(args, toggleFirst(k), k+"x") // not keys of this schema: the fields they resemble stay
						}
					}
					args = append(args, "no_such_key")
				}
				m := newm()
				drop := map[string]bool{}
				for _, k := range keys {
					drop[k] = true
				}
				for k, v := range src.m.fields {
					if !drop[k] {
						m.fields[k] = v
					}
				}
				live = append(live, &c16live{real: src.real.Omit(args...), m: m})
			case "extend":
				ei := 1 + op.Schema%max(1, len(w.Schemas)-1)
				if ei >= len(w.Schemas) {
					break
				}
				m := newm()
				for k, v := range src.m.fields {
					m.fields[k] = v
				}
				// one Schema value per extension, passed to every Extend that names it (an application-wide
				// `var audit = z.Schema{...}`): Extend must not write into, or keep, its argument
				ext := extMaps[ei]
				if ext == nil {
					ext = z.Schema{}
					for _, f := range w.Schemas[ei].Fields {
						ext[f.Key] = objs[strconv.Itoa(ei)+"/"+f.Key]
					}
					extMaps[ei] = ext
				}
				for _, f := range w.Schemas[ei].Fields {
					m.fields[f.Key] = objs[strconv.Itoa(ei)+"/"+f.Key]
				}
				live = append(live, &c16live{real: src.real.Extend(ext), m: m})
				if len(ext) != len(w.Schemas[ei].Fields) {
					extArgBad = fmt.Sprintf("%s: the Schema value passed to Extend had %d entries before the call and has %d after it (%v)", desc, len(w.Schemas[ei].Fields), len(ext), sortedKeys(ext))
				}
				for _, f := range w.Schemas[ei].Fields {
					if ext[f.Key] != objs[strconv.Itoa(ei)+"/"+f.Key] {
						extArgBad = fmt.Sprintf("%s: entry %q of the Schema value passed to Extend was replaced", desc, f.Key)
					}
				}
			case "merge":
				oi := op.Schema % len(live)
				other := live[oi]
				m := &c16model{fields: map[string]z.ZogSchema{}, owner: c, from: srcIdx}
				for k, v := range src.m.fields {
					m.fields[k] = v
				}
				for k, v := range other.m.fields {
					m.fields[k] = v
				}
				m.tests = append(append([]c16cb(nil), src.m.tests...), other.m.tests...)
				m.pts = append(append([]c16cb(nil), src.m.pts...), other.m.pts...)
				desc += fmt.Sprintf(" other=#%d", oi)
				var more []*z.StructSchema
				if op.Collect == "mixed" || op.Collect == "map" {
					// Merge(other, others...): later operands win, tests and transforms are concatenated in order
					for k := 1; k <= 1+op.ErrAt; k++ {
						o2 := live[(oi+k)%len(live)]
						for kk, v := range o2.m.fields {
							m.fields[kk] = v
						}
						m.tests = append(m.tests, o2.m.tests...)
						m.pts = append(m.pts, o2.m.pts...)
						more = append(more, o2.real)
						desc += fmt.Sprintf(",#%d", (oi+k)%len(live))
					}
				}
				// the operand list is the caller's (often a spread slice that owns spare capacity): Merge reads it, nothing more
				if len(more) > 0 {
					grown := make([]*z.StructSchema, len(more), len(more)+3)
					copy(grown, more)
					more = grown
				}
				before := append([]*z.StructSchema(nil), more...)
				live = append(live, &c16live{real: src.real.Merge(other.real, more...), m: m})
				for k := range before {
					if more[k] != before[k] {
						extArgBad = fmt.Sprintf("%s: operand %d of the list passed to Merge was replaced by the call", desc, k)
					}
				}
				if tail := more[:cap(more)]; len(before) > 0 && tail[len(before)] != nil {
					extArgBad = fmt.Sprintf("%s: Merge wrote into the spare capacity of the caller's operand list", desc)
				}
			case "test", "pt":
				cbid++
				cb := c16cb{ID: c*100 + cbid, Kind: op.Arg, Fail: op.ErrAt == 1 && op.Arg == "test"}
				if cb.Fail && len(op.Input.L) > 0 && cbid%2 == 0 {
					cb.Path = op.Input.L[0].S // a failing test that reports under a (base) field's name
				}
				addCB(src.real, cb)
				if op.Arg == "test" {
					src.m.tests = append(src.m.tests, cb)
				} else {
					src.m.pts = append(src.m.pts, cb)
				}
				src.m.ext++
				root := srcIdx
				for live[root].m.from >= 0 {
					root = live[root].m.from
				}
				if extendedBy[root] == nil {
					extendedBy[root] = map[int]bool{}
				}
				if srcIdx != root {
					extendedBy[root][srcIdx] = true
				}
				if len(extendedBy[root]) >= 2 {
					x.NonTrivial = true
					x.Probes["derived_after_sibling_extended"]++
				}
			}
		}()
		x.R.InOp = false
		x.Ops++
		if extArgBad != "" {
			cls := "C16/extend-modified-its-argument"
			if op.Arg == "merge" {
				cls = "C16/merge-modified-its-operand-list"
			}
			return &Violation{Class: cls, Detail: extArgBad}
		}
		if builderPanic != "" {
			return &Violation{Class: "C16/builder-call-panicked op=" + op.Arg, Detail: fmt.Sprintf("step %q: %s", desc, builderPanic)}
		}
		if len(live) > 12 {
			live = live[:12]
		}
		if v := checkAll(desc); v != nil {
			return v
		}
	}
	return nil
}

func max(a, b int) int {
	if a > b {
		return a
	}
	return b
}

func toggleFirst(k string) string {
	if k == "" {
		return k
	}
	c := k[0]
	switch {
	case c >= 'a' && c <= 'z':
		return string(c-32) + k[1:]
	case c >= 'A' && c <= 'Z':
		return string(c+32) + k[1:]
	}
	return k + "_"
}
