package harness

import (
	"net/url"
	"reflect"
	"regexp"
	"strconv"
	"strings"
	"time"

	"github.com/Oudwins/zog/zz_verif/simrt"
)

// The reference model (DESIGN.md §2.6, Appendix A): an executable reading of
// the documentation and of the property statements over the plain-data schema
// AST. It is written from the documents, not from the library's sources, and it
// abstains (Abstain != nil) where they are silent.

type MIssue struct {
	Path string
	Code string
	Type string
	Node int
	Why  string // required | coerce | test | custom | pre | pt
	Idx  int
}

func (i MIssue) PCT() string { return i.Path + "|" + i.Code + "|" + i.Type }

// MCall is an expectation about a callback invocation.
type MCall struct {
	Node int
	Kind string // test pt custom pre
	Idx  int
	Must bool   // must have run (false: may or may not)
	Arg  string // canonical argument value when the model knows it ("" unknown)
}

// MNode is what the model concluded about one visited node instance.
type MNode struct {
	N       *Node
	Path    string
	Absent  bool
	Skipped bool // absent optional: tests not run, destination untouched
	Default bool
	Caught  bool
	Failed  bool // required/coerce failure (node aborted)
	Val     any  // model value after the node (nil when unknown/untouched)
	HasVal  bool
	Issues  int // issues contributed by this node itself
}

type Model struct {
	Mode         string // parse | validate
	Source       string // tag consulted first: "" | json | form | query | env
	Visits       []simrt.Visit
	vpos         int
	Desync       bool
	OrderUnknown bool // the field visit order of the real execution is not observable
	Issues       []MIssue
	Nodes        []*MNode
	Abstain      []string
	// PostTransform / callback expectations
	Forbid []MCall // must NOT have been called
	Expect []MCall // Must: must have been called exactly once per visit (in order for pts)
	// PtErr: pts that return an error produce an issue; the model adds it
}

// MIn is a node's input: Parse: a Val or Missing; Validate: the value held by
// the destination (same Val vocabulary, nil = zero value).
type MIn struct {
	Missing bool
	V       Val
}

func joinPath(base, seg string) string {
	if base == "" {
		return seg
	}
	if strings.HasPrefix(seg, "[") {
		return base + seg
	}
	return base + "." + seg
}

func parseAbsent(in MIn) bool {
	if in.Missing || in.V.IsNil() {
		return true
	}
	if in.V.K == "s" {
		return strings.TrimSpace(in.V.S) == ""
	}
	return false
}

var decimalRx = regexp.MustCompile(`^[+-]?[0-9]+$`)

func validateAbsent(n *Node, in MIn) bool {
	if in.Missing || in.V.IsNil() {
		return true
	}
	v := in.V
	switch n.Kind {
	case "string":
		return v.K == "s" && v.S == ""
	case "int":
		return v.K == "i" && v.I == 0
	case "float":
		return (v.K == "f" && v.Fl() == 0) || (v.K == "i" && v.I == 0)
	case "bool":
		return v.K == "b" && !v.B
	case "time":
		// the Go zero value: the zero instant *in UTC* (another zone's rendering of that instant is a different value)
		return v.K == "t" && MustTime(v.S).IsZero() && strings.HasSuffix(v.S, "Z")
	case "slice":
		return v.K == "l" && len(v.L) == 0
	}
	return false
}

// CoerceModel is the documented coercion table. ok=false: not coercible;
// known=false: outside the documented domain (the model abstains).
func CoerceModel(kind string, v Val) (out any, ok bool, known bool) {
	switch kind {
	case "string":
		switch v.K {
		case "s":
			return v.S, true, true
		case "i":
			return strconv.FormatInt(v.I, 10), true, true
		case "b":
			return strconv.FormatBool(v.B), true, true
		case "f":
			return strconv.FormatFloat(v.F, 'g', -1, 64), true, v.F > -1e15 && v.F < 1e15
		}
		return nil, false, false
	case "int":
		switch v.K {
		case "i":
			return int(v.I), true, true
		case "s":
			i, err := strconv.ParseInt(v.S, 10, 64)
			if err != nil {
				// fractional / padded strings are outside the documented table
				_, ferr := strconv.ParseFloat(strings.TrimSpace(v.S), 64)
				return nil, false, ferr != nil
			}
			// a run of decimal digits, optionally signed, zero-padded or not ("08" is eight: form fields and CSV
			// cells are written that way), is a decimal number; anything else that happens to parse is outside the table
			canonical := decimalRx.MatchString(v.S)
			return int(i), true, canonical
		case "f":
			if v.F == float64(int64(v.F)) {
				return int(v.F), true, true
			}
			return nil, false, false
		case "l", "m":
			return nil, false, true
		}
		return nil, false, false
	case "float":
		switch v.K {
		case "f":
			return v.F, true, true
		case "i":
			return float64(v.I), true, true
		case "s":
			f, err := strconv.ParseFloat(v.S, 64)
			if err != nil {
				return nil, false, true
			}
			return f, true, strings.TrimSpace(v.S) == v.S
		case "l", "m":
			return nil, false, true
		}
		return nil, false, false
	case "bool":
		switch v.K {
		case "b":
			return v.B, true, true
		case "s":
			switch v.S {
			case "true", "on", "1":
				return true, true, true
			case "false", "off", "0":
				return false, true, true
			case "maybe", "yes!", "nope":
				return nil, false, true
			}
			return nil, false, false
		case "i":
			if v.I == 0 {
				return false, true, true
			}
			if v.I == 1 {
				return true, true, true
			}
			return nil, false, true
		case "l", "m":
			return nil, false, true
		}
		return nil, false, false
	case "time":
		switch v.K {
		case "t":
			return MustTime(v.S), true, true
		case "s":
			t, err := time.Parse(time.RFC3339, v.S)
			if err != nil {
				return nil, false, true
			}
			return t, true, true
		case "i":
			return time.Unix(v.I, 0), true, true
		case "b", "l", "m":
			return nil, false, true
		case "f":
			// "unsupported type" (pinned upstream for 1.23): a JSON number is not a point in time, whole or not
			return nil, false, true
		}
		return nil, false, false
	}
	return nil, false, false
}

// typedVal converts a Val that already has the node's type (defaults, catch
// values, Validate inputs) to the model value.
func typedVal(n *Node, v Val) any {
	switch n.Kind {
	case "string":
		return v.S
	case "int":
		return int(v.I)
	case "float":
		return numVal(v)
	case "bool":
		return v.B
	case "time":
		if v.K != "t" {
			return time.Time{}
		}
		return MustTime(v.S)
	case "custom":
		if n.CT == "int" {
			return int(v.I)
		}
		return v.S
	case "slice":
		out := make([]any, len(v.L))
		for i := range v.L {
			out[i] = typedVal(n.Elem, v.L[i])
		}
		return out
	case "ptr", "pre":
		return typedVal(n.Elem, v)
	case "struct":
		out := map[string]any{}
		for _, f := range n.Fields {
			fv, _ := v.Get(f.Key)
			out[f.Key] = typedVal(f.N, fv)
		}
		return out
	}
	return nil
}

// DefaultCode is the documented issue code of a built-in test.
func DefaultCode(t TestSpec) string {
	c := map[string]string{
		"min": "min", "max": "max", "len": "len", "oneof": "one_of_options", "contains": "contained",
		"prefix": "prefix", "suffix": "suffix", "upper": "contains_upper", "digit": "contains_digit",
		"special": "contains_special", "eq": "eq", "gt": "gt", "gte": "gte", "lt": "lt", "lte": "lte",
		"after": "after", "before": "before", "email": "email", "url": "url", "uuid": "uuid",
		"true": "eq", "false": "eq", "custom": "", "match": "match",
	}[t.T]
	if t.Not {
		c = "not_" + c
	}
	if t.Code != "" {
		c = t.Code
	}
	return c
}

func modelEqual(a, b any) bool {
	if fa, ok := a.(float64); ok {
		if fb, ok2 := b.(float64); ok2 && fa != fa && fb != fb {
			return true // both NaN: the same value for our purposes
		}
	}
	if ta, ok := a.(time.Time); ok {
		tb, ok2 := b.(time.Time)
		return ok2 && ta.Equal(tb)
	}
	return reflect.DeepEqual(a, b)
}

// Hand-written readings of the generated Match patterns (no regular expression engine involved).
func refMatch(pat, s string) bool {
	digits := func(x string) bool {
		for i := 0; i < len(x); i++ {
			if x[i] < '0' || x[i] > '9' {
				return false
			}
		}
		return len(x) > 0
	}
	switch pat {
	case `^abc$`:
		return s == "abc"
	case `^ab`:
		return strings.HasPrefix(s, "ab")
	case `lo$`:
		return strings.HasSuffix(s, "lo")
	case `b`:
		return strings.Contains(s, "b")
	case `^[0-9]+$`:
		return digits(s)
	case `^h.*o$`:
		return len(s) >= 2 && s[0] == 'h' && s[len(s)-1] == 'o' && !strings.Contains(s, "\n")
	case `^v1\.2$`:
		return s == "v1.2"
	case `^prod\z`:
		return s == "prod"
	case `^(a|ab)$`:
		return s == "a" || s == "ab"
	case `(?i)^hello$`:
		return strings.EqualFold(s, "hello")
	case `^$`:
		return s == ""
	case `^a\$b$`:
		return s == "a$b"
	case `^x!$`:
		return s == "x!"
	}
	panic("harness: no reference reading for pattern " + pat)
}

func isHex(c byte) bool {
	return (c >= '0' && c <= '9') || (c >= 'a' && c <= 'f') || (c >= 'A' && c <= 'F')
}

func isAlnum(c byte) bool {
	return (c >= '0' && c <= '9') || (c >= 'a' && c <= 'z') || (c >= 'A' && c <= 'Z')
}

// 8-4-4-4-12 hexadecimal digits
func refUUID(s string) bool {
	if len(s) != 36 {
		return false
	}
	for i := 0; i < 36; i++ {
		if i == 8 || i == 13 || i == 18 || i == 23 {
			if s[i] != '-' {
				return false
			}
		} else if !isHex(s[i]) {
			return false
		}
	}
	return true
}

// local@label(.label)*: the local part from the printable set the HTML living standard allows, labels of 1-63 letters, digits and inner hyphens
func refEmail(s string) bool {
	at := strings.IndexByte(s, '@')
	if at <= 0 {
		return false
	}
	for i := 0; i < at; i++ {
		if !isAlnum(s[i]) && !strings.ContainsRune(".!#$%&'*+/=?^_`{|}~-", rune(s[i])) {
			return false
		}
	}
	for _, lab := range strings.Split(s[at+1:], ".") {
		if len(lab) < 1 || len(lab) > 63 || !isAlnum(lab[0]) || !isAlnum(lab[len(lab)-1]) {
			return false
		}
		for i := 0; i < len(lab); i++ {
			if !isAlnum(lab[i]) && lab[i] != '-' {
				return false
			}
		}
	}
	return true
}

// TestPass is the independent reference predicate of every generated test.
func TestPass(n *Node, t TestSpec, val any) bool {
	var r bool
	switch n.Kind {
	case "string":
		s, _ := val.(string)
		switch t.T {
		case "min":
			r = len(s) >= int(t.N)
		case "max":
			r = len(s) <= int(t.N)
		case "len":
			r = len(s) == int(t.N)
		case "oneof":
			for _, o := range t.L {
				if o.S == s {
					r = true
				}
			}
		case "contains":
			r = strings.Contains(s, t.S)
		case "prefix":
			r = strings.HasPrefix(s, t.S)
		case "suffix":
			r = strings.HasSuffix(s, t.S)
		case "upper":
			for i := 0; i < len(s); i++ {
				if s[i] >= 'A' && s[i] <= 'Z' {
					r = true
				}
			}
		case "digit":
			for i := 0; i < len(s); i++ {
				if s[i] >= '0' && s[i] <= '9' {
					r = true
				}
			}
		case "special":
			for i := 0; i < len(s); i++ {
				c := s[i]
				if c > 0x20 && c < 0x7f && !(c >= '0' && c <= '9') && !(c >= 'a' && c <= 'z') && !(c >= 'A' && c <= 'Z') {
					r = true
				}
			}
		case "match":
			r = refMatch(t.S, s)
		case "uuid":
			r = refUUID(s)
		case "email":
			r = refEmail(s)
		case "url":
			u, err := url.Parse(s)
			r = err == nil && u.Scheme != "" && u.Host != ""
		case "custom":
			return CustomPass(t, val)
		}
	case "int":
		x, _ := val.(int)
		switch t.T {
		case "eq":
			r = x == int(t.N)
		case "gt":
			r = x > int(t.N)
		case "gte":
			r = x >= int(t.N)
		case "lt":
			r = x < int(t.N)
		case "lte":
			r = x <= int(t.N)
		case "oneof":
			for _, o := range t.L {
				if int(o.I) == x {
					r = true
				}
			}
		case "custom":
			return CustomPass(t, val)
		}
	case "float":
		x, _ := val.(float64)
		switch t.T {
		case "eq":
			r = x == t.F
		case "gt":
			r = x > t.F
		case "gte":
			r = x >= t.F
		case "lt":
			r = x < t.F
		case "lte":
			r = x <= t.F
		case "oneof":
			for _, o := range t.L {
				if numVal(o) == x {
					r = true
				}
			}
		case "custom":
			return CustomPass(t, val)
		}
	case "bool":
		x, _ := val.(bool)
		switch t.T {
		case "true":
			r = x
		case "false":
			r = !x
		case "eq":
			r = x == (t.N != 0)
		case "custom":
			return CustomPass(t, val)
		}
	case "time":
		x, _ := val.(time.Time)
		switch t.T {
		case "after":
			r = x.After(MustTime(t.S))
		case "before":
			r = x.Before(MustTime(t.S))
		case "eq":
			r = x.Equal(MustTime(t.S))
		case "custom":
			return CustomPass(t, val)
		}
	case "slice":
		l, _ := val.([]any)
		switch t.T {
		case "min":
			r = len(l) >= int(t.N)
		case "max":
			r = len(l) <= int(t.N)
		case "len":
			r = len(l) == int(t.N)
		case "contains":
			want := typedVal(n.Elem, t.L[0])
			for _, e := range l {
				if modelEqual(e, want) {
					r = true
				}
			}
		case "custom":
			return CustomPass(t, modelToGo(n, val))
		}
	case "struct", "custom":
		return CustomPass(t, modelToGo(n, val))
	}
	if t.Not {
		return !r
	}
	return r
}

// modelToGo converts a model value to a Go value of the node's destination
// type so that CustomPass hashes the same canonical form the callback saw.
func modelToGo(n *Node, val any) any {
	t := TypeOf(n)
	out := reflect.New(t).Elem()
	setModel(out, n, val)
	return out.Interface()
}

func setModel(dst reflect.Value, n *Node, val any) {
	if val == nil {
		return
	}
	switch n.Kind {
	case "string", "int", "float", "bool", "time", "custom":
		rv := reflect.ValueOf(val)
		if rv.Type().AssignableTo(dst.Type()) {
			dst.Set(rv)
		} else if rv.Type().ConvertibleTo(dst.Type()) && rv.Kind() != reflect.String {
			dst.Set(rv.Convert(dst.Type())) // model ints/floats into int64 / float32 destinations
		}
	case "slice":
		l, ok := val.([]any)
		if !ok {
			return
		}
		s := reflect.MakeSlice(dst.Type(), len(l), len(l))
		for i := range l {
			setModel(s.Index(i), n.Elem, l[i])
		}
		dst.Set(s)
	case "ptr":
		p := reflect.New(dst.Type().Elem())
		setModel(p.Elem(), n.Elem, val)
		dst.Set(p)
	case "pre":
		setModel(dst, n.Elem, val)
	case "struct":
		m, ok := val.(map[string]any)
		if !ok {
			return
		}
		for _, f := range n.Fields {
			fv := dst.FieldByName(GoName(f.Key))
			if fv.IsValid() {
				setModel(fv, f.N, m[f.Key])
			}
		}
	}
}

func (m *Model) abstain(why string) { m.Abstain = append(m.Abstain, why) }

// required reports the issue of an absent required node, honouring the options given to Required()/NotNil().
func (m *Model) required(n *Node, path, code string) {
	if o := n.ReqOpt; o != nil {
		if o.Code != "" {
			code = o.Code
		}
		if o.Path != "" {
			path = o.Path
		}
	}
	m.issue(n, path, code, "required", -1)
}

func (m *Model) issue(n *Node, path, code, why string, idx int) {
	m.Issues = append(m.Issues, MIssue{Path: path, Code: code, Type: n.ZType(), Node: n.ID, Why: why, Idx: idx})
}

func (m *Model) fieldKey(f *Field) string {
	if m.Mode == "validate" {
		if v, ok := f.Tag("zog"); ok {
			return v
		}
		return f.Key
	}
	return SourceKey(f, m.Source)
}

// order returns the field order for a struct visit: the order the simulator
// chose for the corresponding visit of the real execution when available.
func (m *Model) order(n *Node) []*Field {
	if m.Visits == nil {
		return n.Fields
	}
	if m.vpos >= len(m.Visits) {
		m.Desync = true
		return n.Fields
	}
	v := m.Visits[m.vpos]
	m.vpos++
	if len(v.Keys) != len(n.Fields) {
		m.Desync = true
		return n.Fields
	}
	out := make([]*Field, 0, len(n.Fields))
	for _, k := range v.Keys {
		var f *Field
		for _, ff := range n.Fields {
			if ff.Key == k {
				f = ff
			}
		}
		if f == nil {
			m.Desync = true
			return n.Fields
		}
		out = append(out, f)
	}
	return out
}

// runTests evaluates every test; returns the number of failures.
func (m *Model) runTests(n *Node, path string, val any, mn *MNode) int {
	fails := 0
	for i, t := range n.Tests {
		if !TestPass(n, t, val) {
			fails++
			if n.Catch == nil || !n.IsPrim() {
				p := path
				if t.Path != "" {
					p = t.Path
				}
				m.issue(n, p, DefaultCode(t), "test", i)
				mn.Issues++
			}
		}
	}
	return fails
}

// posts records PostTransform expectations for a node that completed.
func (m *Model) posts(n *Node, path string, mn *MNode, issuesBefore int) {
	if len(n.PTs) == 0 {
		return
	}
	if m.OrderUnknown {
		// "only if no issue exists at that moment" cannot be evaluated without the visit order
		m.abstain("PostTransform gating with an unobservable field visit order")
		return
	}
	if len(m.Issues) > 0 {
		for i := range n.PTs {
			m.Forbid = append(m.Forbid, MCall{Node: n.ID, Kind: "pt", Idx: i})
		}
		return
	}
	// documented (anatomy-of-schema): when Catch triggers, execution jumps to the PostTransforms, so they run
	// on a caught node like on any other; only the absent-optional case is left open
	must := !mn.Skipped
	for i, p := range n.PTs {
		m.Expect = append(m.Expect, MCall{Node: n.ID, Kind: "pt", Idx: i, Must: must})
		if p.Err == "byhand" {
			// reports by hand and returns nil: the later transforms of the node still run
			if must && n.Catch == nil {
				m.Issues = append(m.Issues, MIssue{Path: path, Code: "pt_byhand", Type: n.ZType(), Node: n.ID, Why: "pt", Idx: i})
			} else if !must && n.Catch == nil {
				m.abstain("reporting PostTransform on an absent-optional node")
				return
			}
			continue
		}
		if p.Err != "" {
			if must {
				code := ""
				if p.Err == "issue" {
					code = "pt_issue"
				}
				iss := MIssue{Path: path, Code: code, Type: n.ZType(), Node: n.ID, Why: "pt", Idx: i}
				if p.Err == "issue" || p.Err == "sentinel" {
					// a returned ZogIssue is "reported as well": as itself or wrapped, the statement does not say
					iss.Path, iss.Code, iss.Type = "*", "*", "*"
				}
				m.Issues = append(m.Issues, iss)
				for j := i + 1; j < len(n.PTs); j++ {
					m.Forbid = append(m.Forbid, MCall{Node: n.ID, Kind: "pt", Idx: j})
				}
			} else {
				m.abstain("erroring PostTransform on an absent-optional node")
			}
			return
		}
	}
}

// Eval evaluates node n on input in at path.
func (m *Model) Eval(n *Node, in MIn, path string) *MNode {
	mn := &MNode{N: n, Path: path}
	m.Nodes = append(m.Nodes, mn)
	before := len(m.Issues)
	switch n.Kind {
	case "string", "int", "float", "bool", "time":
		m.evalPrim(n, in, path, mn)
		m.posts(n, path, mn, before)
	case "struct":
		m.evalStruct(n, in, path, mn)
	case "slice":
		m.evalSlice(n, in, path, mn)
	case "ptr":
		absent := false
		if m.Mode == "parse" {
			absent = parseAbsent(in)
		} else {
			absent = in.Missing || in.V.IsNil()
		}
		if absent {
			mn.Absent = true
			if n.Req {
				m.required(n, path, "not_nil")
				mn.Issues++
				mn.Failed = true
			} else {
				mn.Skipped = true
			}
			return mn
		}
		inner := m.Eval(n.Elem, in, path)
		mn.Val, mn.HasVal = inner.Val, inner.HasVal
	case "custom":
		m.evalCustom(n, in, path, mn)
	case "pre":
		m.evalPre(n, in, path, mn)
	}
	return mn
}

func (m *Model) evalPrim(n *Node, in MIn, path string, mn *MNode) {
	var val any
	if m.Mode == "parse" {
		if parseAbsent(in) {
			mn.Absent = true
		} else {
			out, ok, known := CoerceModel(n.Kind, in.V)
			if n.Coercer == "const" && n.CoVal != nil {
				out, ok, known = typedVal(n, *n.CoVal), true, true
			} else if n.Coercer != "" {
				out, ok, known = nil, false, true
			}
			if !known {
				m.abstain("coercion outside the documented table: " + n.Kind + " <- " + in.V.String())
			}
			if !ok {
				mn.Failed = true
				if n.Catch != nil {
					mn.Caught = true
					mn.Val, mn.HasVal = typedVal(n, *n.Catch), true
				} else {
					m.issue(n, path, "coerce", "coerce", -1)
					mn.Issues++
				}
				return
			}
			val = out
		}
	} else {
		if validateAbsent(n, in) {
			mn.Absent = true
		} else {
			val = typedVal(n, in.V)
		}
	}
	if mn.Absent {
		switch {
		case n.Def != nil:
			mn.Default = true
			val = typedVal(n, *n.Def)
		case n.Req:
			mn.Failed = true
			if n.Catch != nil {
				mn.Caught = true
				mn.Val, mn.HasVal = typedVal(n, *n.Catch), true
			} else {
				m.required(n, path, "required")
				mn.Issues++
			}
			return
		default:
			mn.Skipped = true
			return
		}
	}
	mn.Val, mn.HasVal = val, true
	for i, t := range n.Tests {
		if t.T == "custom" {
			m.Expect = append(m.Expect, MCall{Node: n.ID, Kind: "test", Idx: i, Must: n.Catch == nil, Arg: Canon(val)})
		}
	}
	if fails := m.runTests(n, path, val, mn); fails > 0 && n.Catch != nil {
		mn.Caught = true
		mn.Val = typedVal(n, *n.Catch)
	}
}

func (m *Model) evalStruct(n *Node, in MIn, path string, mn *MNode) {
	vals := map[string]any{}
	if m.Mode == "parse" {
		switch {
		case in.Missing || in.V.IsNil():
			mn.Absent = true // every field is MISSING
		case in.V.K == "m":
		case in.V.K == "s" && strings.TrimSpace(in.V.S) == "":
			m.abstain("whitespace string where a struct is expected")
			return
		case in.V.K == "x" || in.V.K == "t":
			// a time.Time (or any Go struct) is itself a record as far as the documentation goes
			m.abstain("Go struct value as input for a struct schema")
			return
		default:
			m.issue(n, path, "coerce", "coerce", -1)
			mn.Issues++
			mn.Failed = true
			// struct-level PostTransforms must not run: an issue exists
			for i := range n.PTs {
				m.Forbid = append(m.Forbid, MCall{Node: n.ID, Kind: "pt", Idx: i})
			}
			return
		}
	}
	for _, f := range m.order(n) {
		var fin MIn
		fv, ok := in.V.Get(f.Key)
		if !ok {
			fin = MIn{Missing: true}
		} else {
			fin = MIn{V: fv}
		}
		if m.Mode == "validate" && !ok {
			fin = MIn{V: VNil()}
		}
		sub := m.Eval(f.N, fin, joinPath(path, m.fieldKey(f)))
		if sub.HasVal {
			vals[f.Key] = sub.Val
		}
	}
	mn.Val, mn.HasVal = vals, true
	for i := range n.Tests {
		m.Expect = append(m.Expect, MCall{Node: n.ID, Kind: "test", Idx: i, Must: true})
	}
	m.runTests(n, path, vals, mn)
	m.posts(n, path, mn, 0)
}

func (m *Model) evalSlice(n *Node, in MIn, path string, mn *MNode) {
	var elems []MIn
	absent := false
	if m.Mode == "parse" {
		absent = parseAbsent(in)
	} else {
		absent = validateAbsent(n, in) || in.V.K != "l"
	}
	useDefault := false
	if absent {
		mn.Absent = true
		switch {
		case n.Def != nil:
			mn.Default = true
			useDefault = true
			for _, e := range n.Def.L {
				elems = append(elems, MIn{V: e})
			}
		case n.Req:
			m.required(n, path, "required")
			mn.Issues++
			mn.Failed = true
			for i := range n.PTs {
				m.Forbid = append(m.Forbid, MCall{Node: n.ID, Kind: "pt", Idx: i})
			}
			return
		default:
			mn.Skipped = true
			m.posts(n, path, mn, 0)
			return
		}
	} else if in.V.K == "l" || in.V.K == "tl" || in.V.K == "sl" {
		if n.Coercer != "" && m.Mode == "parse" {
			m.abstain("whether a custom slice coercer sees an input that already is a list is not documented")
		}
		for _, e := range in.V.L {
			elems = append(elems, MIn{V: e})
		}
	} else if in.V.K == "x" {
		m.abstain("exotic input for slice")
		return
	} else if n.Coercer == "fail" && m.Mode == "parse" {
		// z.Slice(..., z.WithCoercer(f)): f decides what a non-list input becomes; its error is the node's coerce issue
		m.issue(n, path, "coerce", "coerce", -1)
		mn.Issues++
		mn.Failed = true
		for i := range n.PTs {
			m.Forbid = append(m.Forbid, MCall{Node: n.ID, Kind: "pt", Idx: i})
		}
		for i, t := range n.Tests {
			if t.T == "custom" {
				m.Forbid = append(m.Forbid, MCall{Node: n.ID, Kind: "test", Idx: i})
			}
		}
		return
	} else if n.Coercer == "const" && n.CoVal != nil && m.Mode == "parse" {
		for _, e := range n.CoVal.L {
			elems = append(elems, MIn{V: e})
		}
	} else {
		// documented: a scalar becomes a one-element slice
		elems = []MIn{{V: in.V}}
	}
	_ = useDefault
	vals := make([]any, len(elems))
	for i, e := range elems {
		sub := m.Eval(n.Elem, e, joinPath(path, "["+strconv.Itoa(i)+"]"))
		if sub.HasVal {
			vals[i] = sub.Val
		} else {
			vals[i] = zeroModel(n.Elem)
		}
	}
	mn.Val, mn.HasVal = vals, true
	for i, t := range n.Tests {
		if t.T == "custom" {
			m.Expect = append(m.Expect, MCall{Node: n.ID, Kind: "test", Idx: i, Must: true})
		}
	}
	m.runTests(n, path, vals, mn)
	m.posts(n, path, mn, 0)
}

func zeroModel(n *Node) any {
	switch n.Kind {
	case "string":
		return ""
	case "int":
		return 0
	case "float":
		return float64(0)
	case "bool":
		return false
	case "time":
		return time.Time{}
	case "custom":
		if n.CT == "int" {
			return 0
		}
		return ""
	}
	return nil
}

func (m *Model) evalCustom(n *Node, in MIn, path string, mn *MNode) {
	t := TestSpec{T: "custom"}
	if len(n.Tests) > 0 {
		t = n.Tests[0]
	}
	var val any
	if m.Mode == "parse" {
		ok := false
		if !in.Missing {
			if n.CT == "int" && in.V.K == "i" {
				val, ok = int(in.V.I), true
			}
			if n.CT != "int" && in.V.K == "s" {
				val, ok = in.V.S, true
			}
		}
		if !ok {
			m.issue(n, path, "coerce", "coerce", -1)
			mn.Issues++
			mn.Failed = true
			m.Forbid = append(m.Forbid, MCall{Node: n.ID, Kind: "custom", Idx: 0})
			return
		}
	} else {
		val = typedVal(n, in.V)
	}
	mn.Val, mn.HasVal = val, true
	m.Expect = append(m.Expect, MCall{Node: n.ID, Kind: "custom", Idx: 0, Must: true, Arg: Canon(val)})
	if !CustomPass(t, val) {
		p := path
		if t.Path != "" {
			p = t.Path
		}
		m.issue(n, p, t.Code, "custom", 0)
		mn.Issues++
	}
}

func (m *Model) evalPre(n *Node, in MIn, path string, mn *MNode) {
	m.Expect = append(m.Expect, MCall{Node: n.ID, Kind: "pre", Idx: 0, Must: true})
	switch n.CT {
	case "rec_pass":
		if m.Mode != "parse" {
			m.abstain("record preprocess in validate")
			return
		}
		if in.Missing || in.V.K != "m" {
			// not a map[string]any: the function cannot be called, the node reports one coerce issue
			m.issue(n, path, "coerce", "pre", 0)
			mn.Issues++
			mn.Failed = true
			m.Expect = m.Expect[:len(m.Expect)-1]
			m.Forbid = append(m.Forbid, MCall{Node: n.ID, Kind: "pre", Idx: 0})
			return
		}
		inner := m.Eval(n.Elem, in, path)
		mn.Val, mn.HasVal = inner.Val, inner.HasVal
	case "str_list":
		if m.Mode != "parse" {
			m.abstain("str_list preprocess in validate")
			return
		}
		if in.Missing || in.V.K != "s" {
			m.issue(n, path, "coerce", "pre", 0)
			mn.Issues++
			mn.Failed = true
			m.Expect = m.Expect[:len(m.Expect)-1]
			m.Forbid = append(m.Forbid, MCall{Node: n.ID, Kind: "pre", Idx: 0})
			return
		}
		if strings.Contains(in.V.S, "ERR") {
			m.issue(n, path, "*", "pre", 0)
			mn.Issues++
			mn.Failed = true
			return
		}
		var l []Val
		for _, p := range strings.Split(in.V.S, ",") {
			l = append(l, VS(p))
		}
		inner := m.Eval(n.Elem, MIn{V: VL(l...)}, path)
		mn.Val, mn.HasVal = inner.Val, inner.HasVal
	default:
		s := ""
		switch {
		case m.Mode == "parse" && (in.Missing || in.V.IsNil()):
			// a nil input is not an F (Go: a nil interface value satisfies no type assertion): type mismatch
			m.issue(n, path, "coerce", "pre", 0)
			mn.Issues++
			mn.Failed = true
			m.Expect = m.Expect[:len(m.Expect)-1]
			m.Forbid = append(m.Forbid, MCall{Node: n.ID, Kind: "pre", Idx: 0})
			return
		case in.Missing || in.V.IsNil():
		case in.V.K == "s":
			s = in.V.S
		default:
			m.issue(n, path, "*", "pre", 0)
			mn.Issues++
			mn.Failed = true
			return
		}
		if strings.Contains(s, "ERR") {
			m.issue(n, path, "*", "pre", 0)
			mn.Issues++
			mn.Failed = true
			return
		}
		if s == "n/a" {
			s = ""
		}
		inner := m.Eval(n.Elem, MIn{V: VS(strings.TrimSpace(s))}, path)
		mn.Val, mn.HasVal = inner.Val, inner.HasVal
	}
}

// PCTs is the expected sorted multiset of (path, code, type).
func (m *Model) PCTs() []string {
	out := make([]string, 0, len(m.Issues))
	for _, i := range m.Issues {
		out = append(out, i.PCT())
	}
	sortStrings(out)
	return out
}
