package harness

import (
	"sort"
	"strings"
)

// Decisions are the choices consumed during an execution, one list per stream
// ("<phase>/visit:<site>", "<phase>/pool.get:<pool>", ...). Together with the
// world description they are the replay file: replaying draws nothing.
type Decisions map[string][]int

func (d Decisions) Clone() Decisions {
	c := Decisions{}
	for k, v := range d {
		c[k] = append([]int(nil), v...)
	}
	return c
}

func (d Decisions) Keys() []string {
	ks := make([]string, 0, len(d))
	for k := range d {
		ks = append(ks, k)
	}
	sort.Strings(ks)
	return ks
}

// DecCfg is the swarm-varied policy used when drawing.
type DecCfg struct {
	VisitP    float64 `json:"visit_p"`    // probability that a visit digit is non-identity
	PoolMode  string  `json:"pool_mode"`  // lifo | random | oldest | miss | mix
	PoolOther float64 `json:"pool_other"` // mix: probability of a non-LIFO hit
	PoolMiss  float64 `json:"pool_miss"`  // mix: probability of a forced miss
	PutDrop   float64 `json:"put_drop"`   // probability a Put is dropped
}

// Dec implements simrt.Decider.
type Dec struct {
	Cfg        DecCfg
	rng        *Rng
	Replay     Decisions // non-nil: replay (benign default when exhausted)
	Rec        Decisions // what was consumed
	pos        map[string]int
	Phase      string           // prefix of every stream ("h/", "p/", "f/" ...)
	Forced     map[string][]int // full stream name -> forced choices (not recorded)
	fpos       map[string]int
	Benign     map[string]bool // phases in which every choice is the default
	NonDefault int
}

func NewDec(cfg DecCfg, rng *Rng, replay Decisions) *Dec {
	return &Dec{Cfg: cfg, rng: rng, Replay: replay, Rec: Decisions{}, pos: map[string]int{},
		Forced: map[string][]int{}, fpos: map[string]int{}, Benign: map[string]bool{}}
}

func (d *Dec) Choose(stream string, n int) int {
	if n <= 1 {
		return 0
	}
	full := d.Phase + stream
	if f, ok := d.Forced[full]; ok {
		i := d.fpos[full]
		d.fpos[full] = i + 1
		if i < len(f) {
			return clamp(f[i], n)
		}
		return 0
	}
	if d.Benign[d.Phase] {
		return 0
	}
	var c int
	if d.Replay != nil {
		l := d.Replay[full]
		i := d.pos[full]
		if i < len(l) {
			c = clamp(l[i], n)
		}
	} else {
		c = d.draw(stream, n)
	}
	d.pos[full]++
	d.Rec[full] = append(d.Rec[full], c)
	if c != 0 {
		d.NonDefault++
	}
	return c
}

func clamp(c, n int) int {
	if c < 0 {
		return 0
	}
	if c >= n {
		return n - 1
	}
	return c
}

func (d *Dec) draw(stream string, n int) int {
	switch {
	case strings.HasPrefix(stream, "visit:"):
		if d.rng.P(d.Cfg.VisitP) {
			return d.rng.Intn(n)
		}
		return 0
	case strings.HasPrefix(stream, "pool.get:"):
		// n = len(free)+1; 0 = LIFO, n-2 = oldest, n-1 = miss
		switch d.Cfg.PoolMode {
		case "lifo":
			return 0
		case "random":
			return d.rng.Intn(n)
		case "oldest":
			if n >= 2 {
				return n - 2
			}
			return 0
		case "miss":
			return n - 1
		default:
			x := d.rng.Float()
			if x < d.Cfg.PoolMiss {
				return n - 1
			}
			if x < d.Cfg.PoolMiss+d.Cfg.PoolOther && n > 2 {
				return 1 + d.rng.Intn(n-2)
			}
			return 0
		}
	case strings.HasPrefix(stream, "pool.put:"):
		if d.rng.P(d.Cfg.PutDrop) {
			return 1
		}
		return 0
	}
	return d.rng.Intn(n)
}

// Trim removes trailing zeros of every recorded stream (they equal the default).
func (d Decisions) Trim() Decisions {
	out := Decisions{}
	for k, v := range d {
		e := len(v)
		for e > 0 && v[e-1] == 0 {
			e--
		}
		if e > 0 {
			out[k] = append([]int(nil), v[:e]...)
		}
	}
	return out
}

func DrawDecCfg(r *Rng) DecCfg {
	c := DecCfg{VisitP: Pick(r, []float64{0, 0.3, 0.6, 1}), PutDrop: Pick(r, []float64{0, 0, 0.05, 0.25})}
	c.PoolMode = Pick(r, []string{"lifo", "random", "oldest", "mix", "mix", "miss"})
	c.PoolOther = Pick(r, []float64{0.1, 0.3, 0.6})
	c.PoolMiss = Pick(r, []float64{0.05, 0.2, 0.5})
	return c
}
