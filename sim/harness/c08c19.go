package harness

import (
	"fmt"
	"net/http"
	"net/url"
	"reflect"
	"strconv"
	"strings"

	"github.com/Oudwins/zog/zz_verif/simrt"
)

// ---------------------------------------------------------------------------
// Running tasks under the baton scheduler

type taskOut struct {
	res    [][]*Result
	snaps  [][][]IssueRec
	panics []any
	sig    string
	steps  int64
}

// runTasks executes the world's tasks concurrently (phasePrefix+"<task>/" is
// the decision phase of each task) under the given preemption points.
func (x *X) runTasks(tasks [][]Op, preempts []simrt.Preempt, phasePrefix string) *taskOut {
	out := &taskOut{res: make([][]*Result, len(tasks)), snaps: make([][][]IssueRec, len(tasks))}
	x.R.OnSwitch = func(to int) { x.Dec.Phase = phasePrefix + strconv.Itoa(to) + "/" }
	fns := make([]func(), len(tasks))
	for t := range tasks {
		t := t
		out.res[t] = make([]*Result, len(tasks[t]))
		out.snaps[t] = make([][]IssueRec, len(tasks[t]))
		fns[t] = func() {
			for i := range tasks[t] {
				op := &tasks[t][i]
				tag := strconv.Itoa(t) + ":" + strconv.Itoa(i)
				switch op.Kind {
				case "parse", "validate":
					res := x.Exec(tag, op)
					out.res[t][i] = res
					if res.Panic == "" && op.Collect != "" {
						x.Collect(tag, op.Collect, res)
					} else if res.Panic == "" {
						out.snaps[t][i] = res.Snapshot()
					}
				}
				simrt.Yield("between-ops")
			}
		}
	}
	steps0 := x.R.Steps
	out.panics = x.R.RunTasks(fns, preempts)
	out.steps = x.R.Steps - steps0
	x.R.OnSwitch = nil
	if s := x.R.LastSched; s != nil {
		out.sig = s.Sig()
	}
	return out
}

// ---------------------------------------------------------------------------
// C08 – schemas are safe to share between goroutines

func init() {
	Register(&Scenario{ID: "C08", Gen: genC08, Run: runC08,
		Rule: "2-4 tasks (family crowd: 36-46 tasks with one operation each, staggered so that all are inside the schema at once), each 1-3 Parse/Validate/Collect operations with its own data, destination and options, on 1-3 schemas shared by all tasks; the baton scheduler preempts at simulator-chosen yield points (every instrumented function entry and loop head, " +
			"every pool call, callback and read) and hands pool objects from task to task; every operation must return what its task returns running alone (fresh pools, freshly built schemas) under the same visit orders, uncollected results must stay unchanged, Sanitize*AndCollect must return the messages it was handed; " +
			"a share of the worlds runs in the -race build with the hand-offs hidden from the detector. Non-trivial iff >=1 preemption happened inside a Parse/Validate and >=1 pool object crossed tasks; distinct by (schemas, operations, interleaving signature, decision vectors)"})
}

func genC08(r *Rng, tier string) *World {
	w := &World{Prop: "C08", Cfg: DrawDecCfg(r), Params: map[string]int{}}
	ns := 1 + r.Intn(3)
	var cfgs []GenCfg
	for i := 0; i < ns; i++ {
		c := DrawGenCfg(r, "parse")
		c.PTags = 0
		c.without("pre")
		c.PPT = Pick(r, []float64{0, 0.2})
		c.PValid = Pick(r, []float64{0.4, 0.7})
		cfgs = append(cfgs, c)
		w.Schemas = append(w.Schemas, GenNode(r, &c, 0, true))
	}
	if r.P(0.12) {
		// top-level schemas that return an issue *list*: a Preprocess in front of a list (its items push path segments)
		// next to a plain primitive
		w.Schemas[0] = &Node{Kind: "pre", CT: "str_list", Elem: &Node{Kind: "slice", Elem: &Node{Kind: "string", Req: true,
			Tests: []TestSpec{{T: "min", N: int64(1 + r.Intn(3))}, {T: "custom", Mod: 0, Code: "c0"}}}}}
		if len(w.Schemas) > 1 {
			w.Schemas[1] = genKind(r, &cfgs[1], Pick(r, []string{"string", "int", "bool"}), 0)
		}
	}
	nt := 2 + r.Intn(3)
	for t := 0; t < nt; t++ {
		var ops []Op
		for i := 0; i < 1+r.Intn(3); i++ {
			op := genExecOp(r, w, cfgs, 0.3)
			op.Collect = Pick(r, []string{"", "", "CollectMap", "Collect", "SanitizeMapAndCollect", "SanitizeListAndCollect"})
			if r.P(0.25) {
				withFront(r, w, &op, false)
			}
			if sn := w.Schemas[op.Schema]; sn.Kind == "pre" && sn.CT == "str_list" {
				op.Kind, op.Front, op.IO = "parse", "", nil
				op.Input = VS(Pick(r, []string{"a,b", "x", "a,,b", "q,w,e,r", "abc,de,f", ",", "ab,ERR"}))
			}
			ops = append(ops, op)
		}
		w.Tasks = append(w.Tasks, ops)
	}
	w.Params["npre"] = Pick(r, []int{1, 2, 3, 5, 8})
	if r.P(0.03) && w.Schemas[0].Kind != "pre" {
		// a crowd: dozens of callers inside one schema at the same moment (a busy server's handlers), each stopped half-way
		// through its call before the next one starts; every one of them must still get what it gets alone
		w.Family = "crowd"
		root := w.Schemas[0]
		hasPtr := false
		root.Walk(func(n *Node) { hasPtr = hasPtr || n.Kind == "ptr" })
		if !hasPtr {
			switch root.Kind {
			case "struct":
				if r.P(0.5) {
					root = &Node{Kind: "ptr", Req: r.P(0.3), Elem: root}
					break
				}
				fallthrough
			case "string", "int", "bool", "slice":
				root = &Node{Kind: "struct", Fields: []*Field{{Key: "p", N: &Node{Kind: "ptr", Req: r.P(0.3), Elem: root}}}}
			}
		}
		w.Schemas, cfgs = []*Node{root}, cfgs[:1]
		w.Tasks = nil
		for t, nt := 0, 36+r.Intn(11); t < nt; t++ {
			w.Tasks = append(w.Tasks, []Op{genExecOp(r, w, cfgs, 0.3)})
		}
		w.Params["crowd"] = 1
	}
	return w
}

func (x *X) fingerprints() []uint64 {
	out := make([]uint64, len(x.Built))
	for i, b := range x.Built {
		out[i] = Fingerprint(b.Z)
	}
	return out
}

func runC08(x *X) *Violation {
	w := x.W
	if len(w.Tasks) == 0 {
		return nil
	}
	if simrt.RaceEnabled {
		return runC08Race(x)
	}
	x.BuildSchemas()
	fp0 := x.fingerprints()
	// dry pass: how many scheduler steps does the world have?
	{
		x.FreshRun("d")
		for t := range w.Tasks {
			x.Dec.Benign["d"+strconv.Itoa(t)+"/"] = true
		}
		dry := x.runTasks(w.Tasks, nil, "d")
		total := int(dry.steps)
		if total < 2 {
			total = 2
		}
		if w.Preempts == nil && !x.Replay {
			if w.P("crowd") == 1 {
				// task k runs about half of its call, then hands over to task k+1 (To counts the runnable tasks other than the current one)
				half := total/len(w.Tasks)/2 + 1
				for k := 0; k+1 < len(w.Tasks); k++ {
					w.Preempts = append(w.Preempts, simrt.Preempt{Step: int64((k+1)*half - x.genRng.Intn(half/2+1)), To: k})
				}
			} else {
				for i := 0; i < w.P("npre"); i++ {
					w.Preempts = append(w.Preempts, simrt.Preempt{Step: int64(1 + x.genRng.Intn(total)), To: x.genRng.Intn(4)})
				}
			}
			sortPreempts(w.Preempts)
		}
	}
	// concurrent execution, on schemas nobody has used yet (first uses may race too)
	x.BuildSchemas()
	fp0 = x.fingerprints()
	x.FreshRun("c")
	con := x.runTasks(w.Tasks, w.Preempts, "c")
	x.Sig.WriteString(con.sig)
	x.Faults["preempt"] += 0
	inOp := x.R.Stats["preempt_inside_op"]
	cross := x.R.Stats["cross_task_handoff"]
	if inOp > 0 {
		x.Probes["preempt_inside_parse"]++
	}
	if cross > 0 {
		x.Probes["cross_task_handoff"]++
	}
	if inOp > 0 && cross > 0 {
		x.NonTrivial = true
	}
	if w.P("crowd") == 1 {
		x.Probes["crowd_worlds"]++
		if inOp >= 33 {
			x.Probes["crowd_33_calls_in_flight"]++
		}
	}
	for t, p := range con.panics {
		if p != nil {
			return &Violation{Class: "C08/task-panicked", Detail: fmt.Sprintf("task %d: %v", t, p)}
		}
	}
	// results must not change after return (until the task itself collects)
	for t := range con.res {
		for i, res := range con.res[t] {
			if res == nil || con.snaps[t][i] == nil {
				continue
			}
			if f, d := issueFieldDiff(con.snaps[t][i], res.Snapshot()); f != "" {
				return &Violation{Class: "C08/result-changed-after-return field=" + f,
					Detail: fmt.Sprintf("result of task %d op %d changed while other tasks ran: %s", t, i, d)}
			}
		}
	}
	if x.SanitizeBad != "" {
		return &Violation{Class: "C08/sanitize-and-collect-output-differs", Detail: "interleaving " + con.sig + ": " + x.SanitizeBad}
	}
	// the object graph of a schema changing is a reach probe, not a verdict: a correct lazy cache changes it too;
	// what counts is behaviour, checked below against freshly built schemas
	fp1 := x.fingerprints()
	for i := range fp0 {
		if fp0[i] != fp1[i] {
			x.Probes["schema_object_graph_changed"]++
		}
	}
	// every task alone in a fresh world (fresh pools, freshly built schemas), same visit orders
	x.BuildSchemas()
	for t := range w.Tasks {
		x.forceVisitsFrom("c"+strconv.Itoa(t)+"/", "s"+strconv.Itoa(t)+"/")
		x.FreshRun("s" + strconv.Itoa(t) + "/")
		x.Dec.Benign["s"+strconv.Itoa(t)+"/"] = true
		for i := range w.Tasks[t] {
			op := &w.Tasks[t][i]
			if op.Kind != "parse" && op.Kind != "validate" {
				continue
			}
			tag := strconv.Itoa(t) + ":" + strconv.Itoa(i)
			solo := x.Exec(tag, op)
			if solo.Panic == "" && op.Collect != "" {
				x.Collect(tag, op.Collect, solo)
			}
			c := con.res[t][i]
			if c == nil {
				return &Violation{Class: "C08/operation-did-not-complete", Detail: fmt.Sprintf("task %d op %d", t, i)}
			}
			if f, d := CompareResults(c, solo); f != "" {
				return &Violation{Class: "C08/result-differs-from-solo " + f,
					Detail: fmt.Sprintf("task %d op %d (interleaving %s): concurrent vs alone: %s", t, i, con.sig, d)}
			}
		}
	}
	return nil
}

func sortPreempts(p []simrt.Preempt) {
	for i := 1; i < len(p); i++ {
		for j := i; j > 0 && p[j].Step < p[j-1].Step; j-- {
			p[j], p[j-1] = p[j-1], p[j]
		}
	}
}

// ---------------------------------------------------------------------------
// C19 – executions never modify the schema or the input

func init() {
	Register(&Scenario{ID: "C19", Gen: genC19, Run: runC19,
		Rule: "histories of 2-6 executions of one schema with slice-valued and scalar Defaults, Catch values and OneOf/Contains lists, with PostTransforms that mutate the destination they are given (overwrite an element, append, rewrite a leaf); " +
			"family 'tasks' runs two concurrent tasks on the schema under the baton scheduler. After every call: deep snapshots of every input and of the harness-side handles on schema-owned values are unchanged, the schema fingerprint is unchanged, " +
			"a repeated identical call gives the identical result, destination slices do not share memory with a default, Validate without Default/Catch/PostTransform leaves the value unchanged. " +
			"Non-trivial iff a default was applied or a destination-mutating PostTransform ran before a later call on the same schema; distinct by hash of (schema, operations, decision vectors)"})
}

func genC19(r *Rng, tier string) *World {
	w := &World{Prop: "C19", Cfg: DrawDecCfg(r), Params: map[string]int{}}
	c := DrawGenCfg(r, "parse")
	c.PTags = 0
	c.without("pre", "custom")
	c.PDef = Pick(r, []float64{0.4, 0.7})
	c.PCatch = Pick(r, []float64{0.1, 0.3})
	c.PPT = Pick(r, []float64{0.3, 0.6})
	c.PPTErr = Pick(r, []float64{0, 0.25})
	c.Opts = r.P(0.5)
	c.PCustomT = Pick(r, []float64{0.2, 0.5})
	c.PAbsent = Pick(r, []float64{0.3, 0.5})
	if !c.has("slice") {
		c.Kinds = append(c.Kinds, "slice")
	}
	root := GenNode(r, &c, 0, true)
	// make the transforms mutate what they are given
	root.Walk(func(n *Node) {
		for i := range n.PTs {
			if r.P(0.7) {
				switch n.Kind {
				case "slice":
					n.PTs[i].Mutate = Pick(r, []string{"elem0", "append", "elem0"})
				default:
					n.PTs[i].Mutate = "leaf"
				}
			}
		}
		if n.Kind == "slice" && n.Def != nil && len(n.PTs) == 0 && r.P(0.6) {
			n.PTs = append(n.PTs, PTSpec{Mutate: Pick(r, []string{"elem0", "append"})})
		}
	})
	// destinations of a user-defined list type, with Defaults written as plain []string values
	root.Walk(func(n *Node) {
		if n.Kind == "slice" && n.Elem.Kind == "string" && n.Elem.W == "" && r.P(0.25) {
			n.W = "named"
		}
	})
	w.Schemas = []*Node{root}
	aliasDest := root.Kind == "struct" && r.P(0.3)
	mk := func() Op {
		op := Op{Schema: 0}
		if r.P(0.45) {
			op.Kind = "validate"
			op.Input = GenValidateInput(r, &c, root, false)
		} else {
			op.Kind = "parse"
			v, missing := GenParseInput(r, &c, root)
			if missing {
				v = VNil()
			}
			if r.P(0.5) || aliasDest {
				v = typedLists(root, v)
			}
			op.Input = v
		}
		if op.Kind == "parse" && op.Input.K == "m" && (root.Kind == "struct" || (root.Kind == "ptr" && root.Elem.Kind == "struct")) && r.P(0.2) {
			// the input is an *http.Request (form body or query string); a repeated call gets the same request object
			in := blankListEntries(r, op.Input)
			op.Input = in
			op.Front = "zhttp"
			if r.P(0.6) {
				op.IO = &IOSpec{Method: "POST", CT: "application/x-www-form-urlencoded", BodyKind: "form", Chunk: Pick(r, []int{0, 3})}
				if r.P(0.3) {
					op.IO.QueryIn = &in
				}
			} else {
				op.IO = &IOSpec{Method: "GET", BodyKind: "none", QueryIn: &in}
			}
		}
		op.Rev = r.P(0.3)
		op.Collect = Pick(r, []string{"", "", "CollectMap", "SanitizeMapAndCollect"})
		if r.P(0.3) {
			op.Opts = append(op.Opts, OptSpec{K: "fmt", Fmt: Pick(r, []string{"stamp", "record", "setparams"})})
		}
		return op
	}
	if r.P(0.25) {
		w.Family = "tasks"
		for t := 0; t < 2; t++ {
			var ops []Op
			for i := 0; i < 1+r.Intn(2); i++ {
				ops = append(ops, mk())
			}
			w.Tasks = append(w.Tasks, ops)
		}
		w.Params["npre"] = Pick(r, []int{1, 2, 4})
		return w
	}
	w.Family = "history"
	if aliasDest {
		w.Params["alias_dest"] = 1
	}
	var ops []Op
	n := 2 + r.Intn(5)
	for i := 0; i < n; i++ {
		if i > 0 && r.P(0.5) {
			ops = append(ops, ops[r.Intn(len(ops))]) // repeat an earlier call
		} else {
			ops = append(ops, mk())
		}
	}
	w.Tasks = [][]Op{ops}
	return w
}

// typedLists turns homogeneous, correctly typed list inputs into typed Go slices
// ([]string, []int, ...) the way a caller holding typed data would pass them.
func typedLists(n *Node, v Val) Val {
	switch n.Kind {
	case "struct":
		if v.K != "m" {
			return v
		}
		out := VM()
		for _, kv := range v.M {
			var f *Field
			for _, ff := range n.Fields {
				if ff.Key == kv.K {
					f = ff
				}
			}
			if f == nil {
				out.M = append(out.M, kv)
			} else {
				out.M = append(out.M, KV{kv.K, typedLists(f.N, kv.V)})
			}
		}
		return out
	case "ptr":
		return typedLists(n.Elem, v)
	case "slice":
		if v.K != "l" || !n.Elem.IsPrim() || n.Elem.Kind == "time" {
			return v
		}
		if len(v.L) == 0 {
			// a typed nil slice is not nil: a present, empty list of that type
			return Val{K: "tl", S: n.Elem.Kind, B: true}
		}
		want := map[string]string{"string": "s", "int": "i", "float": "f", "bool": "b"}[n.Elem.Kind]
		for _, e := range v.L {
			if e.K != want {
				return v
			}
		}
		return Val{K: "tl", S: n.Elem.Kind, L: v.L}
	}
	return v
}

// blankListEntries blanks some non-final entries of string lists with two or more entries (a repeated
// parameter sent empty: `tags=a&tags=&tags=b`).
func blankListEntries(r *Rng, v Val) Val {
	if v.K != "m" {
		return v
	}
	out := VM()
	for _, kv := range v.M {
		if (kv.V.K == "l" || kv.V.K == "tl") && len(kv.V.L) >= 2 && r.P(0.4) {
			l := VL(kv.V.L...)
			l.L = append([]Val(nil), kv.V.L...)
			i := r.Intn(len(l.L) - 1)
			if l.L[i].K == "s" || l.L[i].K == "nil" {
				l.L[i] = VS(Pick(r, []string{"", " "}))
			}
			kv.V = l
		}
		out.M = append(out.M, kv)
	}
	return out
}

func canonValues(v url.Values) string {
	if v == nil {
		return "nil"
	}
	var sb strings.Builder
	for _, k := range sortedKeys(v) {
		sb.WriteString(fmt.Sprintf("%q=%q;", k, v[k]))
	}
	return sb.String()
}

func ownedSnapshot(e *Engine) []string {
	out := make([]string, len(e.Owned))
	for i, o := range e.Owned {
		out[i] = fmt.Sprintf("%s n%d %s", o.What, o.Node, Canon(o.V))
	}
	return out
}

// hasValueChangingMods: could a Validate call legitimately change the value? (PostTransforms that only look do not.)
func hasValueChangingMods(n *Node) bool {
	st := false
	n.Walk(func(m *Node) {
		if m.Def != nil || m.Catch != nil || m.Kind == "pre" {
			st = true
		}
		for _, p := range m.PTs {
			if p.Mutate != "" {
				st = true
			}
		}
	})
	return st
}

func hasStatefulMods(n *Node) bool {
	st := false
	n.Walk(func(m *Node) {
		if m.Def != nil || m.Catch != nil || len(m.PTs) > 0 || m.Kind == "pre" {
			st = true
		}
	})
	return st
}

func runC19(x *X) *Violation {
	w := x.W
	if len(w.Tasks) == 0 {
		return nil
	}
	x.E.Owned = nil
	paramsOwner = func(m map[string]any) { x.E.Owned = append(x.E.Owned, Owned{"params", -1, m}) }
	x.BuildSchemas()
	paramsOwner = nil
	root := x.Built[0].N
	owned0 := ownedSnapshot(x.E)
	fp0 := x.fingerprints()
	checkSchema := func(when string) *Violation {
		now := ownedSnapshot(x.E)
		for i := range owned0 {
			if owned0[i] != now[i] {
				what := strings.SplitN(owned0[i], " ", 2)[0]
				return &Violation{Class: "C19/schema-owned-value-modified what=" + what,
					Detail: fmt.Sprintf("%s: %s became %s", when, owned0[i], now[i])}
			}
		}
		fp := x.fingerprints()
		for i := range fp0 {
			if fp[i] != fp0[i] {
				// reach probe only: behaviour (first use vs later use, fresh schema vs used schema) is the verdict
				x.Probes["schema_object_graph_changed"]++
				fp0[i] = fp[i]
			}
		}
		return nil
	}
	// default slices must not be aliased by destinations
	defaultPtrs := map[int]uintptr{}
	for _, o := range x.E.Owned {
		if o.What == "default" {
			rv := reflect.ValueOf(o.V)
			if rv.Kind() == reflect.Slice && rv.Cap() > 0 {
				defaultPtrs[o.Node] = rv.Pointer()
			}
		}
	}
	checkAlias := func(res *Result, when string) *Violation {
		var is []inst
		instances(root, res.destPtr.Elem(), "", &is)
		for _, in := range is {
			if in.n.Kind == "slice" && in.v.Cap() > 0 {
				if p, ok := defaultPtrs[in.n.ID]; ok && in.v.Pointer() == p {
					return &Violation{Class: "C19/destination-aliases-default mode=" + when,
						Detail: fmt.Sprintf("the destination slice at %q shares its backing array with the schema's Default", in.path)}
				}
			}
		}
		return nil
	}

	if w.Family == "tasks" {
		{
			x.FreshRun("d")
			for t := range w.Tasks {
				x.Dec.Benign["d"+strconv.Itoa(t)+"/"] = true
			}
			dry := x.runTasks(w.Tasks, nil, "d")
			total := int(dry.steps)
			if total < 2 {
				total = 2
			}
			if w.Preempts == nil && !x.Replay {
				for i := 0; i < w.P("npre"); i++ {
					w.Preempts = append(w.Preempts, simrt.Preempt{Step: int64(1 + x.genRng.Intn(total)), To: x.genRng.Intn(4)})
				}
				sortPreempts(w.Preempts)
			}
			if v := checkSchema("after the dry pass"); v != nil {
				return v
			}
		}
		inputs0 := map[string]string{}
		for t := range w.Tasks {
			for i := range w.Tasks[t] {
				inputs0[fmt.Sprint(t, ":", i)] = w.Tasks[t][i].Input.String()
			}
		}
		x.FreshRun("c")
		con := x.runTasks(w.Tasks, w.Preempts, "c")
		for t, p := range con.panics {
			if p != nil {
				return &Violation{Class: "C19/task-panicked", Detail: fmt.Sprintf("task %d: %v", t, p)}
			}
		}
		if v := checkSchema("after two concurrent tasks"); v != nil {
			return v
		}
		for t := range con.res {
			for _, res := range con.res[t] {
				if res != nil && res.Panic == "" {
					if v := checkAlias(res, "concurrent"); v != nil {
						return v
					}
				}
			}
		}
		// each task alone, on freshly built schemas, gives the same results (a shared default mutated by the other task would show here)
		x.BuildSchemas()
		root = x.Built[0].N
		for t := range w.Tasks {
			x.forceVisitsFrom("c"+strconv.Itoa(t)+"/", "s"+strconv.Itoa(t)+"/")
			x.FreshRun("s" + strconv.Itoa(t) + "/")
			x.Dec.Benign["s"+strconv.Itoa(t)+"/"] = true
			for i := range w.Tasks[t] {
				op := &w.Tasks[t][i]
				solo := x.Exec(strconv.Itoa(t)+":"+strconv.Itoa(i), op)
				if c := con.res[t][i]; c != nil {
					if f, d := CompareResults(c, solo); f != "" {
						return &Violation{Class: "C19/concurrent-use-changes-result " + f, Detail: fmt.Sprintf("task %d op %d: %s", t, i, d)}
					}
				}
			}
		}
		if len(defaultPtrs) > 0 {
			x.NonTrivial = true
		}
		return checkSchema("at the end")
	}

	x.FreshRun("r/")
	type seenRes struct {
		key   string
		res   *Result
		phase string
	}
	var seen []seenRes
	reqs := map[string]*http.Request{}
	mutated := false
	for i := range w.Tasks[0] {
		op := &w.Tasks[0][i]
		if op.Kind != "parse" && op.Kind != "validate" {
			continue
		}
		// the harness owns the input: a Go value built once, snapshotted, handed to the library
		var inputGo any
		if op.Kind == "parse" {
			inputGo = RenameKeys(root, op.Input, "").ToGo()
		}
		key := op.Kind + "|" + op.Front + "|" + op.Input.String() + "|" + fmt.Sprint(op.Opts, op.Rev)
		if op.IO != nil {
			key += "|" + op.IO.Method + "|" + op.IO.CT + "|" + fmt.Sprint(op.IO.QueryIn != nil, op.IO.Chunk)
		}
		var req, twin *http.Request
		if op.Kind == "parse" && op.Front == "zhttp" {
			if req = reqs[key]; req == nil {
				req = x.buildRequest(op, x.Built[0])
				reqs[key] = req
			}
			// what net/http alone makes of an identical request
			twin = x.buildRequest(op, x.Built[0])
			twin.ParseForm()
			inputGo = req
		}
		before := Canon(inputGo)
		if req != nil {
			before = req.URL.RawQuery
		}
		o := *op
		o.Arg = "given"
		x.given = inputGo
		if w.P("alias_dest") == 1 && op.Kind == "parse" && req == nil && root.Kind == "struct" {
			// the destination was filled from this very value before (`dst := src`, or a previous result fed back in): its
			// slices share storage with the input's
			x.destHook = func(dest reflect.Value, data any) {
				m, ok := data.(map[string]any)
				if !ok {
					return
				}
				for _, f := range root.Fields {
					if f.N.Kind != "slice" {
						continue
					}
					rv := reflect.ValueOf(m[SourceKey(f, "")])
					df := dest.Elem().FieldByName(GoName(f.Key))
					if rv.IsValid() && df.IsValid() && df.CanSet() && rv.Type() == df.Type() && rv.Len() > 0 {
						df.Set(rv)
						x.Probes["destination_shares_input_storage"]++
					}
				}
			}
		}
		for _, s := range seen {
			if s.key == key {
				x.forceVisitsFrom(s.phase, "o"+strconv.Itoa(i)+"/")
				break
			}
		}
		x.SetPhase("o" + strconv.Itoa(i) + "/")
		res := x.Exec("0:"+strconv.Itoa(i), &o)
		x.given = nil
		x.destHook = nil
		if res.Panic != "" {
			return &Violation{Class: "C19/panic mode=" + op.Kind, Detail: res.Panic}
		}
		if req != nil {
			if req.URL.RawQuery != before {
				return &Violation{Class: "C19/input-modified what=request-url", Detail: fmt.Sprintf("query string was %q, is %q after the call", before, req.URL.RawQuery)}
			}
			if req.Form != nil && (canonValues(req.Form) != canonValues(twin.Form) || canonValues(req.PostForm) != canonValues(twin.PostForm)) {
				return &Violation{Class: "C19/input-modified what=request-form", Detail: fmt.Sprintf("after the call the request holds Form=%s PostForm=%s; net/http alone gives Form=%s PostForm=%s",
					canonValues(req.Form), canonValues(req.PostForm), canonValues(twin.Form), canonValues(twin.PostForm))}
			}
			x.Probes["request_checked"]++
		} else if after := Canon(inputGo); after != before {
			return &Violation{Class: "C19/input-modified mode=" + op.Kind, Detail: fmt.Sprintf("input was %s, is %s after the call", before, after)}
		}
		if v := checkSchema(fmt.Sprintf("after call %d (%s)", i, op.Kind)); v != nil {
			return v
		}
		if v := checkAlias(res, op.Kind); v != nil {
			return v
		}
		if op.Kind == "validate" && !hasValueChangingMods(root) {
			want := CanonV(Populate(x.Built[0].Typ, op.Input))
			if res.Dest != want {
				return &Violation{Class: "C19/validate-changed-the-value", Detail: fmt.Sprintf("no Default, Catch or value-changing PostTransform in the schema, yet %s became %s", want, res.Dest)}
			}
		}
		for _, s := range seen {
			if s.key == key {
				if f, d := CompareResults(s.res, res); f != "" {
					return &Violation{Class: "C19/later-use-differs-from-first " + f,
						Detail: fmt.Sprintf("call %d repeats an earlier call but: %s", i, d)}
				}
				if mutated {
					x.NonTrivial = true
				}
			}
		}
		seen = append(seen, seenRes{key, res, "o" + strconv.Itoa(i) + "/"})
		snap := *res
		snap.Issues, snap.First = res.Snapshot(), res.First
		seen[len(seen)-1].res = &snap
		if op.Collect != "" {
			x.Collect("0:"+strconv.Itoa(i), op.Collect, res)
			if v := checkSchema(fmt.Sprintf("after %s of call %d", op.Collect, i)); v != nil {
				return v
			}
		}
		for _, c := range res.Calls {
			if c.Kind == "pt" {
				mutated = true
			}
		}
		var is []inst
		instances(root, res.destPtr.Elem(), "", &is)
		for _, in := range is {
			if in.n.Kind == "slice" && in.n.Def != nil && in.v.Len() > 0 {
				mutated = true
			}
		}
	}
	// a schema that has been used behaves like one that has not: every call again on freshly built schemas
	x.BuildSchemas()
	root = x.Built[0].N
	x.FreshRun("z/")
	for i := range w.Tasks[0] {
		op := &w.Tasks[0][i]
		if op.Kind != "parse" && op.Kind != "validate" || i >= len(seen) {
			continue
		}
		x.BuildSchemas() // every call on a schema nobody has used before
		x.forceVisitsFrom(seen[i].phase, "z"+strconv.Itoa(i)+"/")
		x.SetPhase("z" + strconv.Itoa(i) + "/")
		x.Dec.Benign["z"+strconv.Itoa(i)+"/"] = true
		fresh := x.Exec("z:"+strconv.Itoa(i), op)
		if f, d := CompareResults(seen[i].res, fresh); f != "" {
			return &Violation{Class: "C19/used-schema-differs-from-fresh-schema " + f,
				Detail: fmt.Sprintf("call %d on the schema after %d earlier uses vs on a freshly built schema: %s", i, i, d)}
		}
	}
	return nil
}

// ---------------------------------------------------------------------------
// The race layer (DESIGN.md §2.7): the same worlds in the -race build, with a
// lean simulator the detector cannot see. Verdicts here are (a) a task panics,
// (b) the race detector's log grew while the world ran (checked by the caller).

func (x *X) execLean(t int, op *Op) *Result {
	b := x.Built[op.Schema]
	res := &Result{}
	rec := &OpRec{RootNode: b.N, Validate: op.Kind == "validate"}
	dest := reflect.New(b.typ(op.Rev))
	var data any
	if op.Kind == "validate" {
		populate(dest.Elem(), op.Input)
	} else if op.Front != "" && op.Front != "map" {
		// a front end: the reader keeps no shared counters in the lean layer
		ox := &X{Faults: map[string]int64{}}
		data, _ = ox.makeInput(op, b)
	} else {
		data = op.Input.ToGo()
	}
	rec.Root = dest
	res.destPtr = dest
	x.leanRecs[t] = rec
	opts := x.execOptions(op, rec)
	simrt.SetInOp(true)
	func() {
		defer func() {
			if p := recover(); p != nil {
				res.Panic = panicString(p)
			}
		}()
		var raw any
		if op.Kind == "validate" {
			raw = callValidate(b, dest, opts)
		} else {
			raw = callParse(b, data, dest, opts)
		}
		res.fill(raw)
	}()
	simrt.SetInOp(false)
	res.Calls = rec.Calls
	res.Dest = scrubAddr(CanonV(dest.Elem()))
	return res
}

func runC08Race(x *X) *Violation {
	w := x.W
	x.BuildSchemas()
	// step count: every operation once, sequentially, in the ordinary simulator
	x.FreshRun("d/")
	x.Dec.Benign["d/"] = true
	total := 0
	for t := range w.Tasks {
		for i := range w.Tasks[t] {
			op := &w.Tasks[t][i]
			if op.Kind == "parse" || op.Kind == "validate" {
				res := x.Exec(strconv.Itoa(t)+":"+strconv.Itoa(i), op)
				total += int(res.Steps)
			}
		}
	}
	if total < 2 {
		total = 2
	}
	if w.Preempts == nil && !x.Replay {
		for i := 0; i < w.P("npre"); i++ {
			w.Preempts = append(w.Preempts, simrt.Preempt{Step: int64(1 + x.genRng.Intn(total)), To: x.genRng.Intn(4)})
		}
		sortPreempts(w.Preempts)
	}
	x.foldRun()
	x.BuildSchemas() // schemas nobody has used yet: lazily initialised state races on first use
	x.buildSharedOpts()
	r := simrt.NewRun(nil)
	r.Lean = true
	x.R = r
	simrt.Install(r)
	x.E.Cur = func() *OpRec { return x.leanRecs[simrt.CurTask()] }
	x.E.Owned = nil
	nt := len(w.Tasks)
	if nt > 8 {
		nt = 8
	}
	results := make([][]*Result, nt)
	fns := make([]func(), nt)
	for t := 0; t < nt; t++ {
		t := t
		results[t] = make([]*Result, len(w.Tasks[t]))
		fns[t] = func() {
			for i := range w.Tasks[t] {
				op := &w.Tasks[t][i]
				if op.Kind != "parse" && op.Kind != "validate" {
					continue
				}
				res := x.execLean(t, op)
				results[t][i] = res
				if res.Panic == "" && op.Collect != "" {
					simrt.SetInOp(true)
					func() {
						defer func() { recover() }()
						collectRaw(op.Collect, res.raw)
					}()
					simrt.SetInOp(false)
				}
				simrt.Yield("between-ops")
			}
		}
	}
	panics := r.RunTasks(fns, w.Preempts)
	_, _, _, cross := r.LeanStats()
	for t := range results {
		for _, res := range results[t] {
			if res != nil {
				x.Ops++
			}
		}
	}
	if s := r.LastSched; s != nil {
		x.Sig.WriteString(s.Sig())
		if s.PreemptInside > 0 {
			x.Probes["preempt_inside_parse"]++
		}
		if cross > 0 {
			x.Probes["cross_task_handoff"]++
		}
		if s.PreemptInside > 0 && cross > 0 {
			x.NonTrivial = true
		}
	}
	x.Probes["race_layer_worlds"]++
	for t, p := range panics {
		if p != nil {
			return &Violation{Class: "C08/task-panicked", Detail: fmt.Sprintf("task %d: %v", t, p)}
		}
	}
	for t := range results {
		for i, res := range results[t] {
			if res != nil && res.Panic != "" {
				return &Violation{Class: "C08/panic-under-concurrency", Detail: fmt.Sprintf("task %d op %d: %s", t, i, res.Panic)}
			}
		}
	}
	return nil
}
