package harness

import (
	"encoding/json"
	"time"
)

// Shrink minimises a failing world while the same violation class persists
// (DESIGN.md §2.5): drop tasks, operations, schemas, fields, tests, modifiers
// and options, simplify I/O scripts and inputs, reset decisions to their benign
// defaults, drop preemption points. Every candidate is re-executed in replay
// mode; after an accepted step the consumed decisions are re-recorded.

func cloneWorld(w *World) *World {
	b, err := json.Marshal(w)
	if err != nil {
		panic(err)
	}
	c := &World{}
	if err := json.Unmarshal(b, c); err != nil {
		panic(err)
	}
	return c
}

type edit func(w *World) bool

func findNode(w *World, schema, id int) *Node {
	if schema >= len(w.Schemas) {
		return nil
	}
	n := 0
	w.Schemas[schema].Number(&n)
	var out *Node
	w.Schemas[schema].Walk(func(m *Node) {
		if m.ID == id {
			out = m
		}
	})
	return out
}

func worldEdits(w *World) []edit {
	var es []edit
	// tasks
	if len(w.Tasks) > 1 {
		for ti := range w.Tasks {
			ti := ti
			es = append(es, func(c *World) bool {
				c.Tasks = append(c.Tasks[:ti], c.Tasks[ti+1:]...)
				c.Preempts = nil
				return true
			})
		}
	}
	// operations (big chunks first)
	for ti, t := range w.Tasks {
		ti := ti
		if len(t) > 3 {
			half := len(t) / 2
			es = append(es, func(c *World) bool {
				c.Tasks[ti] = c.Tasks[ti][half:]
				return true
			})
			es = append(es, func(c *World) bool {
				keep := append([]Op{}, c.Tasks[ti][:half]...)
				keep = append(keep, c.Tasks[ti][len(c.Tasks[ti])-1])
				c.Tasks[ti] = keep
				return true
			})
		}
		for oi := range t {
			oi := oi
			es = append(es, func(c *World) bool {
				if len(c.Tasks[ti]) <= 1 {
					return false
				}
				c.Tasks[ti] = append(c.Tasks[ti][:oi], c.Tasks[ti][oi+1:]...)
				for k := range c.Tasks[ti] {
					if c.Tasks[ti][k].Ref > oi {
						c.Tasks[ti][k].Ref--
					}
				}
				return true
			})
		}
	}
	// preemption points
	for pi := range w.Preempts {
		pi := pi
		es = append(es, func(c *World) bool {
			c.Preempts = append(c.Preempts[:pi], c.Preempts[pi+1:]...)
			return true
		})
	}
	// unused schemas
	for si := range w.Schemas {
		si := si
		used := false
		for _, t := range w.Tasks {
			for _, op := range t {
				if op.Schema == si && (op.Kind == "parse" || op.Kind == "validate" || op.Kind == "") {
					used = true
				}
			}
		}
		if !used && len(w.Schemas) > 1 {
			es = append(es, func(c *World) bool {
				c.Schemas = append(c.Schemas[:si], c.Schemas[si+1:]...)
				for ti := range c.Tasks {
					for oi := range c.Tasks[ti] {
						if c.Tasks[ti][oi].Schema > si {
							c.Tasks[ti][oi].Schema--
						}
					}
				}
				return true
			})
		}
	}
	// op options and faults
	for ti, t := range w.Tasks {
		for oi, op := range t {
			ti, oi := ti, oi
			if op.Collect != "" {
				es = append(es, func(c *World) bool { c.Tasks[ti][oi].Collect = ""; return true })
			}
			if op.PanicAt != 0 {
				es = append(es, func(c *World) bool { c.Tasks[ti][oi].PanicAt = 0; return true })
			}
			if op.ErrAt != 0 {
				es = append(es, func(c *World) bool { c.Tasks[ti][oi].ErrAt = 0; return true })
			}
			if op.Pre != nil {
				es = append(es, func(c *World) bool { c.Tasks[ti][oi].Pre = nil; return true })
			}
			for k := range op.Opts {
				k := k
				es = append(es, func(c *World) bool {
					o := c.Tasks[ti][oi].Opts
					c.Tasks[ti][oi].Opts = append(o[:k], o[k+1:]...)
					return true
				})
			}
			if op.Front != "" && op.Front != "map" && op.IO == nil {
				es = append(es, func(c *World) bool { c.Tasks[ti][oi].Front = "map"; return true })
			}
			if io := op.IO; io != nil {
				if len(io.Steps) > 0 {
					es = append(es, func(c *World) bool { c.Tasks[ti][oi].IO.Steps = nil; return true })
				}
				if io.Chunk != 0 {
					es = append(es, func(c *World) bool { c.Tasks[ti][oi].IO.Chunk = 0; return true })
				}
				if io.TruncAt != 0 {
					es = append(es, func(c *World) bool { c.Tasks[ti][oi].IO.TruncAt = 0; c.Tasks[ti][oi].IO.Fault = ""; return true })
				}
				if io.CloseErr {
					es = append(es, func(c *World) bool { c.Tasks[ti][oi].IO.CloseErr = false; return true })
				}
				if io.EOFData {
					es = append(es, func(c *World) bool { c.Tasks[ti][oi].IO.EOFData = false; return true })
				}
			}
			es = append(es, inputEdits(ti, oi, op.Input)...)
		}
	}
	// schema nodes
	for si, s := range w.Schemas {
		si := si
		cnt := 0
		s.Number(&cnt)
		s.Walk(func(n *Node) {
			id := n.ID
			for fi := range n.Fields {
				fi := fi
				es = append(es, func(c *World) bool {
					m := findNode(c, si, id)
					if m == nil || fi >= len(m.Fields) || len(m.Fields) <= 1 {
						return false
					}
					m.Fields = append(m.Fields[:fi], m.Fields[fi+1:]...)
					return true
				})
				if len(n.Fields[fi].Tags) > 0 {
					es = append(es, func(c *World) bool {
						m := findNode(c, si, id)
						if m == nil || fi >= len(m.Fields) {
							return false
						}
						m.Fields[fi].Tags = nil
						return true
					})
				}
			}
			for ti := range n.Tests {
				ti := ti
				if n.Kind == "custom" {
					continue
				}
				es = append(es, func(c *World) bool {
					m := findNode(c, si, id)
					if m == nil || ti >= len(m.Tests) {
						return false
					}
					m.Tests = append(m.Tests[:ti], m.Tests[ti+1:]...)
					return true
				})
			}
			for pi := range n.PTs {
				pi := pi
				es = append(es, func(c *World) bool {
					m := findNode(c, si, id)
					if m == nil || pi >= len(m.PTs) {
						return false
					}
					m.PTs = append(m.PTs[:pi], m.PTs[pi+1:]...)
					return true
				})
			}
			if n.Def != nil {
				es = append(es, func(c *World) bool { m := findNode(c, si, id); m.Def = nil; return true })
			}
			if n.Catch != nil {
				es = append(es, func(c *World) bool { m := findNode(c, si, id); m.Catch = nil; return true })
			}
			if n.Req {
				es = append(es, func(c *World) bool { m := findNode(c, si, id); m.Req = false; return true })
			}
		})
	}
	// decisions: whole streams, then single entries
	for _, k := range w.Dec.Keys() {
		k := k
		es = append(es, func(c *World) bool { delete(c.Dec, k); return true })
	}
	for _, k := range w.Dec.Keys() {
		k := k
		l := w.Dec[k]
		if len(l) > 1 {
			for i := range l {
				i := i
				if l[i] != 0 {
					es = append(es, func(c *World) bool {
						if i >= len(c.Dec[k]) {
							return false
						}
						c.Dec[k][i] = 0
						return true
					})
				}
			}
		}
	}
	return es
}

func inputEdits(ti, oi int, in Val) []edit {
	var es []edit
	// drop top-level keys / list elements (one level is enough with repeated passes)
	var rec func(path []int, v Val)
	rec = func(path []int, v Val) {
		switch v.K {
		case "m":
			for i := range v.M {
				p := append(append([]int{}, path...), i)
				es = append(es, func(c *World) bool { return dropAt(&c.Tasks[ti][oi].Input, p) })
				if len(path) < 3 {
					rec(p, v.M[i].V)
				}
			}
		case "l":
			for i := range v.L {
				p := append(append([]int{}, path...), i)
				es = append(es, func(c *World) bool { return dropAt(&c.Tasks[ti][oi].Input, p) })
				if len(path) < 3 {
					rec(p, v.L[i])
				}
			}
		}
	}
	rec(nil, in)
	return es
}

func dropAt(v *Val, path []int) bool {
	if len(path) == 0 {
		return false
	}
	i := path[0]
	switch v.K {
	case "m":
		if i >= len(v.M) {
			return false
		}
		if len(path) == 1 {
			v.M = append(v.M[:i], v.M[i+1:]...)
			return true
		}
		return dropAt(&v.M[i].V, path[1:])
	case "l":
		if i >= len(v.L) {
			return false
		}
		if len(path) == 1 {
			v.L = append(v.L[:i], v.L[i+1:]...)
			return true
		}
		return dropAt(&v.L[i], path[1:])
	}
	return false
}

// Shrink returns the minimised world (finalised: decisions re-recorded, class
// and digest set) and the number of re-executions used.
func Shrink(sc *Scenario, w *World, maxTries int, budget time.Duration) (*World, int) {
	t0 := time.Now()
	class := w.Class
	tries := 0
	run := func(c *World) bool {
		tries++
		ro := RunWorld(sc, c, true, false)
		if ro.Harness != "" || ro.V == nil || ro.V.Class != class {
			return false
		}
		Finalize(c, ro)
		return true
	}
	best := cloneWorld(w)
	if !run(best) {
		// not reproducible as given: return unchanged, the caller will notice
		return w, tries
	}
	for progress := true; progress; {
		progress = false
		es := worldEdits(best)
		for i := 0; i < len(es); i++ {
			if tries >= maxTries || time.Since(t0) > budget {
				return best, tries
			}
			c := cloneWorld(best)
			ok := false
			func() {
				defer func() {
					if recover() != nil {
						ok = false
					}
				}()
				ok = es[i](c)
			}()
			if !ok {
				continue
			}
			if sc.Valid != nil && !sc.Valid(c) {
				continue
			}
			if run(c) {
				best = c
				progress = true
				es = worldEdits(best) // indices shift: stay at the same position
				i--
			}
		}
	}
	return best, tries
}
