package simrt

// The baton scheduler (DESIGN.md §2.2-S6). Tasks are real goroutines; exactly
// one holds the baton. The only places the baton can move are yield points, and
// whether it moves is decided by the world description (a list of preemption
// points in scheduler steps), never by the Go runtime.

// Preempt hands the baton over at the Step-th yield of the world to the To-th
// (mod count) other runnable task.
type Preempt struct {
	Step int64 `json:"step"`
	To   int   `json:"to"`
}

// TaskCtx is the per-task part of the observation state.
type TaskCtx struct {
	ID     int
	OpTag  string
	Visits []Visit
	InOp   bool
}

type task struct {
	ctx    TaskCtx
	resume chan struct{}
	done   bool
	fn     func()
	Panic  any
}

type Sched struct {
	r        *Run
	tasks    []*task
	cur      int
	step     int64
	preempts []Preempt
	next     int
	finished chan struct{}

	Switches int
	Sig      []byte // task id at every switch: the interleaving signature
}

func (s *Sched) Step() int64 { return s.step }

func (s *Sched) runnableOthers() []int {
	var o []int
	for i, t := range s.tasks {
		if i != s.cur && !t.done {
			o = append(o, i)
		}
	}
	return o
}

func (s *Sched) yield(site string) {
	s.step++
	if s.next >= len(s.preempts) || s.step < s.preempts[s.next].Step {
		return
	}
	p := s.preempts[s.next]
	s.next++
	others := s.runnableOthers()
	if len(others) == 0 {
		return
	}
	to := others[((p.To%len(others))+len(others))%len(others)]
	s.r.Stats["preempt"]++
	if s.r.OpTagIsInsideOp() {
		s.r.Stats["preempt_inside_op"]++
	}
	s.r.Event("switch " + itoa(s.cur) + "->" + itoa(to) + " at " + site)
	s.switchTo(to)
}

func itoa(i int) string {
	if i >= 0 && i < 10 {
		return string(rune('0' + i))
	}
	neg := i < 0
	if neg {
		i = -i
	}
	var b []byte
	for i > 0 {
		b = append([]byte{byte('0' + i%10)}, b...)
		i /= 10
	}
	if neg {
		b = append([]byte{'-'}, b...)
	}
	return string(b)
}

func (s *Sched) switchTo(to int) {
	me := s.tasks[s.cur]
	me.ctx.OpTag, me.ctx.Visits, me.ctx.InOp = s.r.OpTag, s.r.Visits, s.r.InOp
	s.cur = to
	t := s.tasks[to]
	s.r.OpTag, s.r.Visits, s.r.InOp = t.ctx.OpTag, t.ctx.Visits, t.ctx.InOp
	s.Switches++
	s.Sig = append(s.Sig, byte('0'+to))
	handoff(t.resume, me.resume)
}

// exit is called by a finishing task, still holding the baton.
func (s *Sched) exit() {
	me := s.tasks[s.cur]
	me.done = true
	for i, t := range s.tasks {
		if !t.done {
			s.cur = i
			s.r.OpTag, s.r.Visits, s.r.InOp = t.ctx.OpTag, t.ctx.Visits, t.ctx.InOp
			s.Sig = append(s.Sig, byte('0'+i))
			s.r.Event("exit->" + itoa(i))
			release(t.resume)
			return
		}
	}
	release(s.finished)
}

// RunTasks runs fns as concurrent tasks under the baton scheduler and returns
// when all have finished. The returned slice holds a recovered panic per task.
func (r *Run) RunTasks(fns []func(), preempts []Preempt) []any {
	s := &Sched{r: r, preempts: preempts, finished: make(chan struct{})}
	for i, fn := range fns {
		s.tasks = append(s.tasks, &task{ctx: TaskCtx{ID: i}, resume: make(chan struct{}), fn: fn})
	}
	if len(fns) == 0 {
		return nil
	}
	r.Sched = s
	for _, t := range s.tasks {
		t := t
		go func() {
			acquire(t.resume)
			func() {
				defer func() {
					if p := recover(); p != nil {
						t.Panic = p
					}
				}()
				t.fn()
			}()
			s.exit()
		}()
	}
	s.cur = 0
	r.OpTag, r.Visits, r.InOp = "", nil, false
	release(s.tasks[0].resume)
	acquire(s.finished)
	r.Sched = nil
	out := make([]any, len(s.tasks))
	for i, t := range s.tasks {
		out[i] = t.Panic
	}
	r.LastSched = s
	return out
}

// OpTagIsInsideOp reports whether the running task is in the middle of a
// library call (the harness tags operations "<task>:<op>" and clears the tag's
// suffix between operations by setting InOp).
func (r *Run) OpTagIsInsideOp() bool { return r.InOp }
