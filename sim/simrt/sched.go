package simrt

// The baton scheduler (DESIGN.md §2.2-S6). Tasks are real goroutines; exactly
// one holds the baton. The only places the baton can move are yield points, and
// whether it moves is decided by the world description (a list of preemption
// points in scheduler steps), never by the Go runtime.
//
// Everything a task touches here is simulator-shared state. In the -race build
// the hand-offs are hidden from the race detector, so this state would look
// racy: every function that touches it is //go:norace and the state lives in
// fixed-size arrays (no append, no map) – DESIGN.md §2.7.

// Preempt hands the baton over at the Step-th yield of the world to the To-th
// (mod count) other runnable task.
type Preempt struct {
	Step int64 `json:"step"`
	To   int   `json:"to"`
}

const maxTasks = 48
const maxPreempts = 64
const maxSig = 512

type task struct {
	resume chan struct{}
	done   bool
	fn     func()
	Panic  any
	// per-task observation state, swapped in and out of Run on a switch
	opTag  string
	visits []Visit
	inOp   bool
}

type Sched struct {
	r        *Run
	tasks    [maxTasks]task
	ntasks   int
	cur      int
	step     int64
	preempts [maxPreempts]Preempt
	npre     int
	next     int
	finished chan struct{}
	doneSync int // address used to publish task results to the main goroutine

	Switches      int
	PreemptInside int
	sig           [maxSig]byte
	nsig          int
}

//go:norace
func (s *Sched) Sig() string { return string(s.sig[:s.nsig]) }

//go:norace
func (s *Sched) pushSig(b byte) {
	if s.nsig < maxSig {
		s.sig[s.nsig] = b
		s.nsig++
	}
}

// CurTask returns the id of the task holding the baton (0 outside RunTasks).
//
//go:norace
func CurTask() int {
	r := cur
	if r == nil || r.Sched == nil {
		return 0
	}
	return r.Sched.cur
}

//go:norace
func (s *Sched) yield(site string) {
	s.step++
	if s.next >= s.npre || s.step < s.preempts[s.next].Step {
		return
	}
	p := s.preempts[s.next]
	s.next++
	n := 0
	for i := 0; i < s.ntasks; i++ {
		if i != s.cur && !s.tasks[i].done {
			n++
		}
	}
	if n == 0 {
		return
	}
	k := ((p.To % n) + n) % n
	to := -1
	for i := 0; i < s.ntasks; i++ {
		if i != s.cur && !s.tasks[i].done {
			if k == 0 {
				to = i
				break
			}
			k--
		}
	}
	if s.r.InOp {
		s.PreemptInside++
	}
	if !s.r.Lean {
		s.r.Event("switch " + itoa(s.cur) + "->" + itoa(to) + " at " + site)
	}
	s.switchTo(to)
}

func itoa(i int) string {
	if i >= 0 && i < 10 {
		return string(rune('0' + i))
	}
	neg := i < 0
	if neg {
		i = -i
	}
	var b []byte
	for i > 0 {
		b = append([]byte{byte('0' + i%10)}, b...)
		i /= 10
	}
	if neg {
		b = append([]byte{'-'}, b...)
	}
	return string(b)
}

//go:norace
func (s *Sched) switchTo(to int) {
	me := &s.tasks[s.cur]
	me.opTag, me.visits, me.inOp = s.r.OpTag, s.r.Visits, s.r.InOp
	s.cur = to
	t := &s.tasks[to]
	s.r.OpTag, s.r.Visits, s.r.InOp = t.opTag, t.visits, t.inOp
	s.Switches++
	s.pushSig(byte('0' + to))
	if s.r.OnSwitch != nil {
		s.r.OnSwitch(to)
	}
	handoff(t.resume, me.resume)
}

// exit is called by a finishing task, still holding the baton.
//
//go:norace
func (s *Sched) exit() {
	s.tasks[s.cur].done = true
	publish(&s.doneSync)
	for i := 0; i < s.ntasks; i++ {
		t := &s.tasks[i]
		if !t.done {
			s.cur = i
			s.r.OpTag, s.r.Visits, s.r.InOp = t.opTag, t.visits, t.inOp
			s.pushSig(byte('0' + i))
			if !s.r.Lean {
				s.r.Event("exit->" + itoa(i))
			}
			if s.r.OnSwitch != nil {
				s.r.OnSwitch(i)
			}
			release(t.resume)
			return
		}
	}
	release(s.finished)
}

//go:norace
func (s *Sched) setPanic(i int, p any) { s.tasks[i].Panic = p }

// RunTasks runs fns as concurrent tasks under the baton scheduler and returns
// when all have finished. The returned slice holds a recovered panic per task.
func (r *Run) RunTasks(fns []func(), preempts []Preempt) []any {
	if len(fns) == 0 {
		return nil
	}
	if len(fns) > maxTasks {
		fns = fns[:maxTasks]
	}
	s := &Sched{r: r, finished: make(chan struct{})}
	for i, p := range preempts {
		if i < maxPreempts {
			s.preempts[i] = p
			s.npre++
		}
	}
	s.ntasks = len(fns)
	for i, fn := range fns {
		s.tasks[i].resume = make(chan struct{})
		s.tasks[i].fn = fn
	}
	r.Sched = s
	r.OpTag, r.Visits, r.InOp = "", nil, false
	if r.OnSwitch != nil {
		r.OnSwitch(0)
	}
	for i := 0; i < s.ntasks; i++ {
		i := i
		go func() {
			acquire(s.tasks[i].resume)
			func() {
				defer func() {
					if p := recover(); p != nil {
						s.setPanic(i, p)
					}
				}()
				s.tasks[i].fn()
			}()
			s.exit()
		}()
	}
	release(s.tasks[0].resume)
	acquire(s.finished)
	subscribe(&s.doneSync)
	r.Sched = nil
	out := make([]any, s.ntasks)
	for i := 0; i < s.ntasks; i++ {
		out[i] = s.tasks[i].Panic
	}
	r.Stats["preempt"] += int64(s.Switches)
	r.Stats["preempt_inside_op"] += int64(s.PreemptInside)
	r.LastSched = s
	return out
}
