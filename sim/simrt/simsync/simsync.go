// Package simsync replaces the standard "sync" package inside the instrumented
// copy of the library (rewrite R2). Everything is an alias of the real thing
// except Pool, which delegates to the simulator's pool model when a run is
// installed and to a real sync.Pool otherwise.
package simsync

import (
	"fmt"
	gosync "sync"

	"github.com/Oudwins/zog/zz_verif/simrt"
)

type (
	Mutex     = gosync.Mutex
	RWMutex   = gosync.RWMutex
	WaitGroup = gosync.WaitGroup
	Once      = gosync.Once
	Map       = gosync.Map
	Cond      = gosync.Cond
	Locker    = gosync.Locker
)

func NewCond(l Locker) *Cond { return gosync.NewCond(l) }

// Pool has the same exported surface as sync.Pool. It is copy-assignable in the
// same (sloppy) way the library copies sync.Pool values in ClearPools.
type Pool struct {
	New func() any

	name string
	real *gosync.Pool
}

//go:norace
func (p *Pool) poolName() string {
	if p.name == "" {
		if p.New == nil {
			p.name = "anon"
		} else {
			p.name = fmt.Sprintf("%T", p.New())
		}
	}
	return p.name
}

func (p *Pool) fallback() *gosync.Pool {
	if p.real == nil {
		p.real = &gosync.Pool{New: p.New}
	}
	return p.real
}

func (p *Pool) Get() any {
	r := simrt.Cur()
	if r == nil {
		return p.fallback().Get()
	}
	return r.PoolGet(p.poolName(), p.New)
}

func (p *Pool) Put(x any) {
	r := simrt.Cur()
	if r == nil {
		p.fallback().Put(x)
		return
	}
	r.PoolPut(p.poolName(), x)
}
