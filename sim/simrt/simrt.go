// Package simrt is the run-time half of the simulator that the instrumented
// copy of the library calls into: simulator-owned map iteration order
// (OrderedKeys), the pool model behind simsync.Pool, yield points and the baton
// scheduler. It imports nothing from the library.
//
// With no Run installed every entry point degrades to the real behaviour
// (sorted iteration order, real sync.Pool, no-op yields).
package simrt

import (
	"fmt"
	"sort"
	"strconv"
)

// Decider is the single source of every choice the simulator makes. n is the
// number of alternatives; 0 is always the benign default (identity order, LIFO
// pool hit, keep on Put, no fault, no preemption).
type Decider interface {
	Choose(stream string, n int) int
}

// Visit records one simulator-ordered map iteration.
type Visit struct {
	Site string
	Keys []string // in the order handed to the library
}

const maxPoolItems = 256

type poolState struct {
	name string
	free []any
}

// Run is one simulated world execution.
type Run struct {
	Dec Decider

	pools map[string]*poolState

	// observation
	Trace   bool
	Events  []string
	digest  uint64
	rdigest uint64
	Steps   int64
	Stats   map[string]int64
	Visits  []Visit // reset by the harness per operation
	OpTag   string  // current operation label for pool probes
	inPool  map[any]int
	lastPut map[any]string // op tag of the last Put of an object
	held    map[any]int    // how many current holders an object has (served twice => 2)

	Lean bool // -race build of C08: no log, no decisions, array-based pool model
	lean leanState

	Sched     *Sched
	LastSched *Sched
	OnSwitch  func(to int) // harness hook: the baton now belongs to task `to`
	InOp      bool
}

var cur *Run

// Cur returns the installed run (nil when not simulating).
func Cur() *Run { return cur }

func NewRun(d Decider) *Run {
	return &Run{
		Dec:     d,
		pools:   map[string]*poolState{},
		digest:  1469598103934665603,
		rdigest: 1469598103934665603,
		Stats:   map[string]int64{},
		inPool:  map[any]int{},
		lastPut: map[any]string{},
		held:    map[any]int{},
	}
}

func Install(r *Run) { cur = r }
func Uninstall()     { cur = nil }

func (r *Run) mix(s string) {
	h := r.digest
	for i := 0; i < len(s); i++ {
		h ^= uint64(s[i])
		h *= 1099511628211
	}
	h ^= 0xff
	h *= 1099511628211
	r.digest = h
}

// Event appends to the replay-comparable event log. It never draws decisions
// and never reads a clock.
func (r *Run) Event(s string) {
	r.mix(s)
	if !internalEvent(s) {
		// what a caller can observe (operations, results, collected output, configuration and builder steps): unlike the
		// pool and scheduler events this part of the log must not depend on what the process did before - a library may
		// legitimately keep process-wide caches that change which pool calls happen
		d := r.digest
		r.digest = r.rdigest
		r.mix(s)
		r.rdigest, r.digest = r.digest, d
	}
	if r.Trace {
		r.Events = append(r.Events, s)
	}
}

func internalEvent(s string) bool {
	for _, p := range [...]string{"get ", "put ", "clear ", "switch ", "exit->"} {
		if len(s) >= len(p) && s[:len(p)] == p {
			return true
		}
	}
	return false
}

func (r *Run) Digest() string { return strconv.FormatUint(r.digest, 16) }

// RDigest covers the observable events only.
func (r *Run) RDigest() string { return strconv.FormatUint(r.rdigest, 16) }

func (r *Run) Count(k string) { r.Stats[k]++ }

// ---------------------------------------------------------------------------
// S1: map iteration order

func OrderedKeys[M ~map[K]V, K comparable, V any](m M, site string) []K {
	keys := make([]K, 0, len(m))
	for k := range m {
		keys = append(keys, k)
	}
	strs := make([]string, len(keys))
	for i, k := range keys {
		if s, ok := any(k).(string); ok {
			strs[i] = s
		} else {
			strs[i] = fmt.Sprint(k)
		}
	}
	sort.Sort(&byStr[K]{keys, strs})
	r := cur
	if r == nil || r.Lean {
		return keys
	}
	n := len(keys)
	perm := false
	if n > 1 {
		stream := "visit:" + site
		lim := n - 1
		if lim > 8 {
			lim = 8
		}
		for i := 0; i < lim; i++ {
			d := r.Dec.Choose(stream, n-i)
			if d > 0 {
				perm = true
				k, s := keys[i+d], strs[i+d]
				copy(keys[i+1:i+d+1], keys[i:i+d])
				copy(strs[i+1:i+d+1], strs[i:i+d])
				keys[i], strs[i] = k, s
			}
		}
	}
	if perm {
		r.Stats["visit_perm"]++
	}
	r.Stats["visit"]++
	r.mix(site)
	for _, s := range strs {
		r.mix(s)
	}
	if r.Trace {
		r.Events = append(r.Events, fmt.Sprintf("visit %s %q", site, strs))
	}
	r.Visits = append(r.Visits, Visit{Site: site, Keys: strs})
	return keys
}

type byStr[K any] struct {
	k []K
	s []string
}

func (b *byStr[K]) Len() int           { return len(b.k) }
func (b *byStr[K]) Less(i, j int) bool { return b.s[i] < b.s[j] }
func (b *byStr[K]) Swap(i, j int) {
	b.k[i], b.k[j] = b.k[j], b.k[i]
	b.s[i], b.s[j] = b.s[j], b.s[i]
}

// ---------------------------------------------------------------------------
// S2: pool model

func (r *Run) pool(name string) *poolState {
	p := r.pools[name]
	if p == nil {
		p = &poolState{name: name}
		r.pools[name] = p
	}
	return p
}

// PoolGet serves a Get: New when the free list is empty; otherwise the decision
// picks the most recently freed object (0), an older one (1..len-1) or a miss
// (len). Only objects the library itself freed are ever handed out.
func (r *Run) PoolGet(name string, newf func() any) any {
	if r.Lean {
		return r.leanGet(name, newf)
	}
	Yield("pool.get")
	p := r.pool(name)
	if len(p.free) == 0 {
		r.Stats["pool_new"]++
		r.Event("get " + name + " new")
		if newf == nil {
			return nil
		}
		return newf()
	}
	c := r.Dec.Choose("pool.get:"+name, len(p.free)+1)
	if c >= len(p.free) {
		r.Stats["pool_miss"]++
		r.Event("get " + name + " miss")
		if newf == nil {
			return nil
		}
		return newf()
	}
	idx := len(p.free) - 1 - c
	obj := p.free[idx]
	p.free = append(p.free[:idx], p.free[idx+1:]...)
	if c == 0 {
		r.Stats["pool_hit_lifo"]++
	} else {
		r.Stats["pool_hit_other"]++
	}
	r.inPool[obj]--
	if r.inPool[obj] <= 0 {
		delete(r.inPool, obj)
	}
	if r.held[obj] > 0 {
		r.Stats["pool_served_twice"]++
	}
	r.held[obj]++
	if t, ok := r.lastPut[obj]; ok && t != r.OpTag {
		r.Stats["pool_reuse_across_calls"]++
		if len(t) > 0 && len(r.OpTag) > 0 && t[0] != r.OpTag[0] {
			r.Stats["cross_task_handoff"]++
		}
	}
	r.Event("get " + name + " hit " + strconv.Itoa(c) + "/" + strconv.Itoa(len(p.free)+1))
	return obj
}

func (r *Run) PoolPut(name string, x any) {
	if r.Lean {
		r.leanPut(name, x)
		return
	}
	Yield("pool.put")
	p := r.pool(name)
	if x == nil {
		return
	}
	c := r.Dec.Choose("pool.put:"+name, 2)
	if r.held[x] > 0 {
		r.held[x]--
		if r.held[x] == 0 {
			delete(r.held, x)
		}
	}
	if c == 1 || len(p.free) >= maxPoolItems {
		r.Stats["pool_put_drop"]++
		r.Event("put " + name + " drop")
		return
	}
	if r.inPool[x] > 0 {
		r.Stats["double_put"]++
	}
	r.inPool[x]++
	r.lastPut[x] = r.OpTag
	p.free = append(p.free, x)
	r.Stats["pool_put"]++
	r.Event("put " + name + " keep")
}

// ClearPools models a GC emptying the pools (one or all).
func (r *Run) ClearPools(name string) {
	for n, p := range r.pools {
		if name == "" || n == name {
			for _, o := range p.free {
				delete(r.inPool, o)
			}
			p.free = nil
		}
	}
	r.Stats["pool_clear"]++
	r.Event("clear " + name)
}

// PoolSizes is used by evidence and tests only.
func (r *Run) PoolSizes() map[string]int {
	m := map[string]int{}
	for n, p := range r.pools {
		m[n] = len(p.free)
	}
	return m
}

// ---------------------------------------------------------------------------
// S6: yield points and the baton scheduler

// Yield is inserted by the instrumenter at every library function entry and
// loop head, and called by the harness at pool calls, reads and callbacks.
//
//go:norace
func Yield(site string) {
	r := cur
	if r == nil {
		return
	}
	r.Steps++
	if s := r.Sched; s != nil {
		s.yield(site)
	}
}
