package simrt

// Baton hand-off primitives. In the -race build (handoff_race.go) they hide the
// channel synchronisation from the race detector; here they are plain channel
// operations.

func handoffPlain(to, me chan struct{}) {
	to <- struct{}{}
	<-me
}
