//go:build race

package simrt

import "runtime"

// In the -race build the baton hand-offs are hidden from the race detector
// (DESIGN.md §2.7): synchronisation events are not recorded while RaceDisable is
// in force, so the detector sees no happens-before edge between tasks except
// the ones the library itself creates.

func handoff(to, me chan struct{}) {
	runtime.RaceDisable()
	to <- struct{}{}
	<-me
	runtime.RaceEnable()
}

func release(c chan struct{}) {
	runtime.RaceDisable()
	c <- struct{}{}
	runtime.RaceEnable()
}

func acquire(c chan struct{}) {
	runtime.RaceDisable()
	<-c
	runtime.RaceEnable()
}

const RaceEnabled = true
