//go:build race

package simrt

import (
	"runtime"
	"unsafe"
)

// In the -race build the baton hand-offs are hidden from the race detector
// (DESIGN.md §2.7): synchronisation events are not recorded while RaceDisable is
// in force, so the detector sees no happens-before edge between tasks except
// the ones the library itself creates (through the pool model, below).

//go:norace
func handoff(to, me chan struct{}) {
	runtime.RaceDisable()
	to <- struct{}{}
	<-me
	runtime.RaceEnable()
}

//go:norace
func release(c chan struct{}) {
	runtime.RaceDisable()
	c <- struct{}{}
	runtime.RaceEnable()
}

//go:norace
func acquire(c chan struct{}) {
	runtime.RaceDisable()
	<-c
	runtime.RaceEnable()
}

// publish / subscribe: a finished task's data becomes visible to the main
// goroutine (and to nobody else: ReleaseMerge does not acquire).
func publish(p *int)   { runtime.RaceReleaseMerge(unsafe.Pointer(p)) }
func subscribe(p *int) { runtime.RaceAcquire(unsafe.Pointer(p)) }

// sync.Pool's own edge: Put(x) happens before the Get that returns x.
func poolAcquire(p unsafe.Pointer) {
	if p != nil {
		runtime.RaceAcquire(p)
	}
}
func poolRelease(p unsafe.Pointer) {
	if p != nil {
		runtime.RaceReleaseMerge(p)
	}
}

const RaceEnabled = true
