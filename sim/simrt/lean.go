package simrt

import "unsafe"

// Lean mode is what the -race build of the C08 scenario uses: the pool model
// and every counter live in fixed-size arrays touched only by //go:norace
// functions, there is no event log and no decision stream (pool hits are LIFO,
// visit orders are the sorted order), so the race detector sees nothing of the
// simulator – only the library and the callbacks. The pool model re-creates
// sync.Pool's own happens-before edge (Put of an object -> the Get that returns
// it) with RaceReleaseMerge/RaceAcquire on the object's address.

const leanPools = 16
const leanItems = 256

type leanPool struct {
	name  string
	n     int
	items [leanItems]any
	by    [leanItems]int8
}

type leanState struct {
	pools     [leanPools]leanPool
	npools    int
	CrossTask int
	Hits      int
	News      int
	Puts      int
}

//go:norace
func (r *Run) leanPool(name string) *leanPool {
	l := &r.lean
	for i := 0; i < l.npools; i++ {
		if l.pools[i].name == name {
			return &l.pools[i]
		}
	}
	if l.npools >= leanPools {
		return nil
	}
	l.pools[l.npools].name = name
	l.npools++
	return &l.pools[l.npools-1]
}

//go:norace
func dataPtr(x any) unsafe.Pointer {
	return (*[2]unsafe.Pointer)(unsafe.Pointer(&x))[1]
}

//go:norace
func (r *Run) leanGet(name string, newf func() any) any {
	Yield("pool.get")
	p := r.leanPool(name)
	if p == nil || p.n == 0 {
		r.lean.News++
		if newf == nil {
			return nil
		}
		return newf()
	}
	p.n--
	x := p.items[p.n]
	p.items[p.n] = nil
	if int(p.by[p.n]) != CurTask() {
		r.lean.CrossTask++
	}
	r.lean.Hits++
	poolAcquire(dataPtr(x))
	return x
}

//go:norace
func (r *Run) leanPut(name string, x any) {
	Yield("pool.put")
	if x == nil {
		return
	}
	p := r.leanPool(name)
	if p == nil || p.n >= leanItems {
		return
	}
	poolRelease(dataPtr(x))
	p.items[p.n] = x
	p.by[p.n] = int8(CurTask())
	p.n++
	r.lean.Puts++
}

// LeanStats is read by the main goroutine after RunTasks returned.
func (r *Run) LeanStats() (hits, news, puts, cross int) {
	return r.lean.Hits, r.lean.News, r.lean.Puts, r.lean.CrossTask
}

// SetInOp marks the running task as inside / outside a library call.
//
//go:norace
func SetInOp(b bool) {
	if r := cur; r != nil {
		r.InOp = b
	}
}
