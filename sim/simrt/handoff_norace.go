//go:build !race

package simrt

func handoff(to, me chan struct{}) { handoffPlain(to, me) }
func release(c chan struct{})      { c <- struct{}{} }
func acquire(c chan struct{})      { <-c }

const RaceEnabled = false
