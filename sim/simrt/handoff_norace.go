//go:build !race

package simrt

import "unsafe"

func handoff(to, me chan struct{}) { handoffPlain(to, me) }
func release(c chan struct{})      { c <- struct{}{} }
func acquire(c chan struct{})      { <-c }
func publish(p *int)               {}
func subscribe(p *int)             {}
func poolAcquire(p unsafe.Pointer) {}
func poolRelease(p unsafe.Pointer) {}

const RaceEnabled = false
