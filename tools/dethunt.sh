#!/bin/bash
# dethunt.sh [budget-seconds] [props...] – determinism hunt: 16 workers per property re-execute EVERY world from its
# recorded decisions (-recheck-all) and compare event digests. Any "nondeterministic world" is a harness bug.
cd "$(dirname "$0")/.."
B=${1:-60}; shift
PROPS=${@:-C01 C02 C04 C05 C06 C07 C08 C09 C10 C11 C12 C13 C14 C15 C16 C19}
S=/dev/shm/zvb-dethunt; rm -rf $S
./tools/build.sh $S >/dev/null 2>&1 || { echo "build failed"; exit 2; }
bad=0
for p in $PROPS; do
  for j in $(seq 0 15); do
    ( $S/simcheck run -prop $p -seed ${SEED:-1} -start $j -stride 16 -count 100000000 -budget $B -recheck-all -out $S/o-$p-$j.json > $S/o-$p-$j.log 2>&1 ) &
  done
  wait
  n=$(grep -l nondeterministic $S/o-$p-*.json 2>/dev/null | wc -l)
  rechecks=$(python3 -c "
import json,glob
print(sum(json.load(open(f)).get('determinism_rechecks',0) for f in glob.glob('$S/o-$p-*.json')))")
  echo "$p: $rechecks worlds re-executed, $n workers saw a nondeterministic world"
  if [ "$n" != "0" ]; then bad=1; grep -h -o 'nondeterministic world[^"]*' $S/o-$p-*.json | head -3; fi
done
[ $bad = 0 ] && rm -rf $S
exit $bad
