#!/bin/bash
# Builds the instrumenter and warms the Go build cache (incl. the -race runtime) offline.
set -e
cd "$(dirname "$0")/.."
export GOFLAGS=-mod=mod GOPROXY=off GOSUMDB=off GOTOOLCHAIN=local
mkdir -p bin evidence replays
(cd tools/instr && go build -o ../../bin/instr .)
S=$(mktemp -d /dev/shm/zogverif-setup.XXXXXX 2>/dev/null || mktemp -d)
trap 'rm -rf "$S"' EXIT
./tools/build.sh "$S" race
"$S/simcheck" list >/dev/null
echo "setup ok"
