#!/bin/bash
# reach.sh [seconds-per-property]: which statements of the library do the generated workloads never execute?
# Builds the instrumented copy with Go's coverage instrumentation (library packages only), runs one worker per property,
# merges the counters and prints per-function coverage plus the uncovered blocks. A diagnostic for the generators
# ("a probe stuck at zero means the workload must change"), not a check.
cd "$(dirname "$0")/.."
B=${1:-10}
export GOFLAGS=-mod=mod GOPROXY=off GOSUMDB=off GOTOOLCHAIN=local
S=/dev/shm/zvb-reach; rm -rf $S
./tools/build.sh $S >/dev/null 2>&1 || { echo "build failed"; exit 2; }
PK=./...
(cd $S && go build -cover -coverpkg=$PK -o $S/simcheck.cover ./zz_verif/cmd/simcheck) || { echo "cover build failed"; exit 2; }
mkdir -p $S/cov
for p in $(python3 -c "import json;print(' '.join(c['property_id'] for c in json.load(open('MANIFEST.json'))['checks']))"); do
  ( GOCOVERDIR=$S/cov $S/simcheck.cover run -prop $p -seed 1 -count 100000000 -budget $B -out $S/o-$p.json >/dev/null 2>&1 ) &
done
wait
(cd $S && go tool covdata textfmt -i=$S/cov -o $S/cover.txt && go tool cover -func=$S/cover.txt > $S/func.txt)
grep -v "100.0%" $S/func.txt | sort -t$'\t' -k3 -n | head -80
echo "--- uncovered blocks (file:line.col,line.col statements count)"
grep " 0$" $S/cover.txt | grep -v "zz_verif" | head -150
