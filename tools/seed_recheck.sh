#!/bin/bash
# seed_recheck.sh [pattern] – re-runs, for every stored seeded change matching the pattern, the checks that
# detected it (seeded/<id>/last_result.txt) against a scratch copy of /repo with the change applied.
# BUDGET (seconds per check, default 8). Prints one line per (seed, check); exit 1 if a detection was lost.
cd "$(dirname "$0")/.."
export GOFLAGS=-mod=mod GOPROXY=off GOSUMDB=off GOTOOLCHAIN=local
B=${BUDGET:-8}; pat="${1:-}"; lost=0
for d in seeded/*${pat}*/; do
  id=$(basename "$d"); [ -f "$d/patch.diff" ] || continue
  props=${PROPS:-$(tr ' ' '\n' < "$d/last_result.txt" | grep ':1$' | cut -d: -f1)}
  [ -n "$props" ] || { echo "$id: no detecting check recorded"; continue; }
  S=$(mktemp -d /dev/shm/zogseed.XXXXXX)
  rsync -a --exclude .git /repo/ "$S"/
  if ! (cd "$S" && patch -s -p1 < "$OLDPWD/$d/patch.diff"); then echo "$id: patch does not apply"; rm -rf "$S"; continue; fi
  for p in $props; do
    out=$(VERIF_REPO="$S" ./check "$p" --budget "$B" 2>&1); rc=$?
    cls=$(grep -m1 '^violation class' <<<"$out")
    if [ $rc -eq 1 ]; then echo "$id: $p DETECTED ($cls)"; else echo "$id: $p exit $rc NOT DETECTED"; lost=1; fi
  done
  rm -rf "$S"
done
exit $lost
