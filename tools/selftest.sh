#!/bin/bash
# selftest.sh: (1) the repository's own test suite passes on the instrumented copy with no simulator installed;
# (2) determinism: for every scenario, N seeds x GOMAXPROCS {1,4,16} x 2 fresh processes give identical run digests;
# (3) no harness file ranges over a map without sorting / uses time.Now / math/rand.
cd "$(dirname "$0")/.."
export GOFLAGS=-mod=mod GOPROXY=off GOSUMDB=off GOTOOLCHAIN=local
S=$(mktemp -d /dev/shm/zogself.XXXXXX); trap 'rm -rf "$S"' EXIT
./tools/build.sh "$S" || exit 2
rc=0
echo "== (1) upstream test suite on the instrumented copy"
n=$(cd "$S" && go test -vet=off -count=1 -json $(go list ./... | grep -v zz_verif) 2>/dev/null | grep -c '"Action":"pass".*"Test"')
echo "passes: $n (baseline 413)"; [ "$n" -eq 413 ] || rc=1
echo "== (2) determinism"
SEEDS="${SEEDS:-1 2 3 4 5 6 7 8 9 10}"
for prop in $("$S/simcheck" list); do
  bad=0
  for seed in $SEEDS; do
    ref=""
    for gmp in 1 4 16; do for rep in 1 2; do
      GOMAXPROCS=$gmp "$S/simcheck" run -prop $prop -seed $seed -count ${COUNT:-150} -budget 60 -out "$S/d.json" >/dev/null 2>&1
      d=$(python3 -c "import json;o=json.load(open('$S/d.json'));print(o['run_digest'],o['worlds'],o.get('harness_error'))")
      if [ -z "$ref" ]; then ref="$d"; elif [ "$ref" != "$d" ]; then bad=1; echo "  $prop seed=$seed GOMAXPROCS=$gmp: $d != $ref"; fi
    done; done
  done
  if [ $bad -eq 0 ]; then echo "  $prop: identical across $(echo $SEEDS | wc -w) seeds x 3 GOMAXPROCS x 2 processes"; else rc=1; fi
done
echo "== (3) static hygiene of the harness"
if grep -n "time\.Now\|math/rand" sim/harness/*.go sim/simrt/*.go | grep -v "shrink.go.*t0 := time.Now()"; then echo "  forbidden source of nondeterminism"; rc=1; else echo "  no time.Now / math/rand in harness or shim"; fi
grep -n "\.Range(" sim/harness/*.go sim/simrt/*.go && { echo "  sync.Map.Range found"; rc=1; }
exit $rc
