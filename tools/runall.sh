#!/bin/bash
# runall.sh [quick|thorough] [budget]: runs every claimed check sequentially, prints a one-line summary each
cd "$(dirname "$0")/.."
TIER="${1:-quick}"; B="${2:-}"
rc=0
for id in $(python3 -c "import json;print(' '.join(c['property_id'] for c in json.load(open('MANIFEST.json'))['checks']))"); do
  if [ -n "$B" ]; then out=$(./check $id --tier $TIER --budget $B 2>&1); else out=$(./check $id --tier $TIER 2>&1); fi
  c=$?
  echo "[$c] $(tail -1 <<<"$out")"
  if [ $c -ne 0 ]; then rc=1; grep -E "^VIOLATION|^violation class|check:|worker exit|nondeterministic|watchdog" <<<"$out" | cut -c1-400 | head -12; fi
done
exit $rc
