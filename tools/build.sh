#!/bin/bash
# build.sh <scratch-dir> [race]
# Copies the repository's working tree ($VERIF_REPO, default /repo) to <scratch-dir>,
# instruments it, injects the simulator and builds <scratch-dir>/simcheck
# (and simcheck.race when "race" is given). Exit 2 on any failure.
set -u
S="$1"; RACE="${2:-}"
REPO="${VERIF_REPO:-/repo}"
HERE="$(cd "$(dirname "$0")/.." && pwd)"
export GOFLAGS=-mod=mod GOPROXY=off GOSUMDB=off GOTOOLCHAIN=local CGO_ENABLED=${CGO_ENABLED:-1}
fail() { echo "build.sh: $*" >&2; exit 2; }
[ -x "$HERE/bin/instr" ] || (cd "$HERE/tools/instr" && go build -o "$HERE/bin/instr" .) || fail "cannot build instrumenter"
mkdir -p "$S" || fail "mkdir"
rsync -a --delete --exclude .git --exclude docs --exclude assets --exclude zz_verif "$REPO"/ "$S"/ || fail "copy"
rm -rf "$S/zz_verif"; cp -r "$HERE/sim" "$S/zz_verif" || fail "inject"
"$HERE/bin/instr" -root "$S" -report "$S/sites.txt" >"$S/instr.log" 2>&1 || { cat "$S/instr.log" >&2; fail "instrumentation failed"; }
(cd "$S" && go build -o "$S/simcheck" ./zz_verif/cmd/simcheck) || fail "build failed"
if [ "$RACE" = race ]; then
  (cd "$S" && go build -race -o "$S/simcheck.race" ./zz_verif/cmd/simcheck) || fail "race build failed"
fi
exit 0
