// instr rewrites a scratch copy of the zog module so that every source of
// nondeterminism inside the library is owned by the simulator (DESIGN.md §2.1):
//
//	R1  `range` over a map        -> range over zzsimrt.OrderedKeys(m, site)
//	R2  import "sync"             -> the simsync shim (sync.Pool becomes the pool model)
//	R3  function entry/loop head  -> zzsimrt.Yield(site)
//
// Sites are named by package, enclosing function and ordinal, never by line, so
// they follow refactorings. The rewrites are source-level splices (no
// re-printing) and are no-ops at run time when no simulator is installed.
//
// Exit status: 0 ok, 2 on any trouble (never a property verdict).
package main

import (
	"flag"
	"fmt"
	"go/ast"
	"go/importer"
	"go/parser"
	"go/token"
	"go/types"
	"os"
	"path/filepath"
	"sort"
	"strings"
)

type edit struct {
	off  int // byte offset in file
	del  int // bytes to delete
	text string
	seq  int
}

type fileEdits struct {
	path  string
	src   []byte
	edits []edit
	need  bool // needs the zzsimrt import
}

var (
	root    = flag.String("root", "", "root of the scratch copy (module root)")
	module  = flag.String("module", "github.com/Oudwins/zog", "module path")
	shimRel = flag.String("shim", "zz_verif/simrt", "shim package directory relative to the module root")
	noYield = flag.Bool("no-yield", false, "do not insert yield points")
	report  = flag.String("report", "", "write a JSON-ish site report here")
)

func die(format string, a ...any) {
	fmt.Fprintf(os.Stderr, "instr: "+format+"\n", a...)
	os.Exit(2)
}

func main() {
	flag.Parse()
	if *root == "" {
		die("-root required")
	}
	abs, err := filepath.Abs(*root)
	if err != nil {
		die("%v", err)
	}
	if err := os.Chdir(abs); err != nil {
		die("%v", err)
	}
	shimPath := *module + "/" + *shimRel
	syncShim := shimPath + "/simsync"

	var dirs []string
	err = filepath.Walk(".", func(p string, info os.FileInfo, err error) error {
		if err != nil {
			return err
		}
		if info.IsDir() {
			base := filepath.Base(p)
			if p != "." && (strings.HasPrefix(base, ".") || strings.HasPrefix(base, "_") ||
				base == "docs" || base == "assets" || base == "node_modules" || base == "testdata" ||
				base == "zz_verif" || base == "vendor") {
				return filepath.SkipDir
			}
			dirs = append(dirs, p)
		}
		return nil
	})
	if err != nil {
		die("walk: %v", err)
	}
	sort.Strings(dirs)

	fset := token.NewFileSet()
	imp := importer.ForCompiler(fset, "source", nil)
	var all []*fileEdits
	var sites []string
	seq := 0

	for _, dir := range dirs {
		ents, err := os.ReadDir(dir)
		if err != nil {
			die("%v", err)
		}
		var files []*ast.File
		var fes []*fileEdits
		for _, e := range ents {
			n := e.Name()
			if e.IsDir() || !strings.HasSuffix(n, ".go") || strings.HasSuffix(n, "_test.go") {
				continue
			}
			p := filepath.Join(dir, n)
			src, err := os.ReadFile(p)
			if err != nil {
				die("%v", err)
			}
			f, err := parser.ParseFile(fset, p, src, parser.ParseComments)
			if err != nil {
				die("parse %s: %v", p, err)
			}
			if hasBuildIgnore(f) {
				continue
			}
			files = append(files, f)
			fes = append(fes, &fileEdits{path: p, src: src})
		}
		if len(files) == 0 {
			continue
		}
		pkgName := files[0].Name.Name
		if pkgName == "main" {
			continue
		}
		info := &types.Info{Types: map[ast.Expr]types.TypeAndValue{}, Uses: map[*ast.Ident]types.Object{}}
		conf := types.Config{Importer: imp, Error: func(err error) {}}
		importPath := *module
		if dir != "." {
			importPath = *module + "/" + filepath.ToSlash(dir)
		}
		if _, err := conf.Check(importPath, fset, files, info); err != nil {
			die("type-check %s: %v", importPath, err)
		}
		for i, f := range files {
			fe := fes[i]
			inst := &instrumenter{fset: fset, info: info, fe: fe, pkg: pkgName, seq: &seq, sites: &sites}
			inst.file(f, syncShim)
			if fe.need {
				// import right after the package clause; a separate decl is always legal
				off := fset.Position(f.Name.End()).Offset
				fe.edits = append(fe.edits, edit{off: off, text: "; import zzsimrt \"" + shimPath + "\"", seq: -1})
			}
			if len(fe.edits) > 0 {
				all = append(all, fe)
			}
		}
	}

	for _, fe := range all {
		sort.SliceStable(fe.edits, func(i, j int) bool {
			if fe.edits[i].off != fe.edits[j].off {
				return fe.edits[i].off > fe.edits[j].off
			}
			return fe.edits[i].seq > fe.edits[j].seq
		})
		out := fe.src
		for _, e := range fe.edits {
			var nb []byte
			nb = append(nb, out[:e.off]...)
			nb = append(nb, e.text...)
			nb = append(nb, out[e.off+e.del:]...)
			out = nb
		}
		if err := os.WriteFile(fe.path, out, 0o644); err != nil {
			die("%v", err)
		}
	}
	if *report != "" {
		sort.Strings(sites)
		os.WriteFile(*report, []byte(strings.Join(sites, "\n")+"\n"), 0o644)
	}
	fmt.Printf("instr: %d files rewritten, %d map-range sites\n", len(all), len(sites))
}

func hasBuildIgnore(f *ast.File) bool {
	for _, cg := range f.Comments {
		if cg.Pos() > f.Package {
			break
		}
		for _, c := range cg.List {
			if strings.HasPrefix(c.Text, "//go:build ignore") || strings.HasPrefix(c.Text, "// +build ignore") {
				return true
			}
		}
	}
	return false
}

type instrumenter struct {
	fset  *token.FileSet
	info  *types.Info
	fe    *fileEdits
	pkg   string
	seq   *int
	sites *[]string
}

func (in *instrumenter) off(p token.Pos) int { return in.fset.Position(p).Offset }

func (in *instrumenter) add(off, del int, text string) {
	*in.seq++
	in.fe.edits = append(in.fe.edits, edit{off: off, del: del, text: text, seq: *in.seq})
}

func (in *instrumenter) text(n ast.Node) string {
	return string(in.fe.src[in.off(n.Pos()):in.off(n.End())])
}

func funcName(pkg string, d *ast.FuncDecl) string {
	name := d.Name.Name
	if d.Recv != nil && len(d.Recv.List) > 0 {
		t := d.Recv.List[0].Type
		for {
			switch x := t.(type) {
			case *ast.StarExpr:
				t = x.X
				continue
			case *ast.IndexExpr:
				t = x.X
				continue
			case *ast.IndexListExpr:
				t = x.X
				continue
			case *ast.ParenExpr:
				t = x.X
				continue
			}
			break
		}
		if id, ok := t.(*ast.Ident); ok {
			name = id.Name + "." + name
		}
	}
	return pkg + "." + name
}

func (in *instrumenter) file(f *ast.File, syncShim string) {
	// R2
	for _, is := range f.Imports {
		if is.Path.Value == `"sync"` {
			repl := `"` + syncShim + `"`
			if is.Name == nil {
				repl = "sync " + repl
			}
			in.add(in.off(is.Path.Pos()), len(is.Path.Value), repl)
		}
	}
	for _, d := range f.Decls {
		switch d := d.(type) {
		case *ast.FuncDecl:
			if d.Body == nil {
				continue
			}
			in.fn(funcName(in.pkg, d), d.Body, hasNoYieldDirective(d))
		case *ast.GenDecl:
			// function literals in package-level initialisers
			name := in.pkg + ".<init>"
			counter := map[string]int{}
			ast.Inspect(d, func(n ast.Node) bool {
				if fl, ok := n.(*ast.FuncLit); ok {
					in.body(name, fl.Body, counter, true)
					return false
				}
				return true
			})
		}
	}
}

func hasNoYieldDirective(d *ast.FuncDecl) bool {
	if d.Doc == nil {
		return false
	}
	for _, c := range d.Doc.List {
		if strings.HasPrefix(c.Text, "//go:nosplit") || strings.HasPrefix(c.Text, "//go:norace") {
			return true
		}
	}
	return false
}

func (in *instrumenter) fn(name string, body *ast.BlockStmt, noYieldHere bool) {
	counter := map[string]int{}
	if !*noYield && !noYieldHere {
		in.fe.need = true
		in.add(in.off(body.Lbrace)+1, 0, " zzsimrt.Yield(\""+name+"\");")
	}
	in.body(name, body, counter, noYieldHere)
}

func simpleExpr(e ast.Expr) bool {
	switch x := e.(type) {
	case *ast.Ident:
		return true
	case *ast.SelectorExpr:
		return simpleExpr(x.X)
	case *ast.ParenExpr:
		return simpleExpr(x.X)
	case *ast.StarExpr:
		return simpleExpr(x.X)
	}
	return false
}

// usesAtomic reports whether the statement (not looking into function literals or nested statement lists) calls
// into sync/atomic: such a call is a synchronisation point, so the scheduler gets a say right before it.
func (in *instrumenter) usesAtomic(st ast.Stmt) bool {
	found := false
	ast.Inspect(st, func(n ast.Node) bool {
		if found {
			return false
		}
		switch c := n.(type) {
		case *ast.FuncLit, *ast.BlockStmt:
			return false
		case *ast.CallExpr:
			if sel, ok := c.Fun.(*ast.SelectorExpr); ok {
				if obj := in.info.Uses[sel.Sel]; obj != nil && obj.Pkg() != nil && obj.Pkg().Path() == "sync/atomic" {
					found = true
					return false
				}
			}
		}
		return true
	})
	return found
}

func (in *instrumenter) atomicYields(name string, list []ast.Stmt) {
	for _, st := range list {
		if _, isLabel := st.(*ast.LabeledStmt); isLabel {
			continue
		}
		if in.usesAtomic(st) {
			in.fe.need = true
			in.add(in.off(st.Pos()), 0, "zzsimrt.Yield(\""+name+"/atomic\"); ")
		}
	}
}

func (in *instrumenter) body(name string, body *ast.BlockStmt, counter map[string]int, noYieldHere bool) {
	labeled := map[ast.Stmt]bool{}
	ast.Inspect(body, func(n ast.Node) bool {
		if !*noYield && !noYieldHere {
			switch b := n.(type) {
			case *ast.BlockStmt:
				in.atomicYields(name, b.List)
			case *ast.CaseClause:
				in.atomicYields(name, b.Body)
			case *ast.CommClause:
				in.atomicYields(name, b.Body)
			}
		}
		switch s := n.(type) {
		case *ast.LabeledStmt:
			labeled[s.Stmt] = true
		case *ast.ForStmt:
			if !*noYield && !noYieldHere {
				in.fe.need = true
				in.add(in.off(s.Body.Lbrace)+1, 0, " zzsimrt.Yield(\""+name+"/loop\");")
			}
		case *ast.RangeStmt:
			tv, ok := in.info.Types[s.X]
			isMap := false
			if ok && tv.Type != nil {
				_, isMap = tv.Type.Underlying().(*types.Map)
			}
			if !isMap {
				if !*noYield && !noYieldHere {
					in.fe.need = true
					in.add(in.off(s.Body.Lbrace)+1, 0, " zzsimrt.Yield(\""+name+"/loop\");")
				}
				return true
			}
			site := fmt.Sprintf("%s#%d", name, counter["range"])
			counter["range"]++
			*in.sites = append(*in.sites, site)
			in.rangeMap(s, site, labeled[s], !*noYield && !noYieldHere, name)
		}
		return true
	})
}

func isBlank(e ast.Expr) bool {
	if e == nil {
		return true
	}
	id, ok := e.(*ast.Ident)
	return ok && id.Name == "_"
}

func (in *instrumenter) rangeMap(s *ast.RangeStmt, site string, labeled bool, yield bool, fname string) {
	in.fe.need = true
	x := in.text(s.X)
	pre, post := "", ""
	if !simpleExpr(s.X) {
		if labeled {
			die("%s: labeled range over a non-trivial map expression is not supported", in.fset.Position(s.Pos()))
		}
		pre = "{ zzm := " + x + "; "
		post = " }"
		x = "zzm"
	}
	var hdr strings.Builder
	hdr.WriteString(pre)
	kname := "zzk"
	bind := ""
	switch {
	case s.Tok == token.DEFINE:
		if !isBlank(s.Key) {
			kname = in.text(s.Key)
		}
		if !isBlank(s.Value) {
			bind = fmt.Sprintf(" %s, zzok := (%s)[%s]; if !zzok { continue };", in.text(s.Value), x, kname)
		} else {
			bind = fmt.Sprintf(" if _, zzok := (%s)[%s]; !zzok { continue };", x, kname)
		}
	case s.Tok == token.ASSIGN:
		bind = fmt.Sprintf(" if _, zzok := (%s)[zzk]; !zzok { continue };", x)
		if !isBlank(s.Key) {
			bind += fmt.Sprintf(" %s = zzk;", in.text(s.Key))
		}
		if !isBlank(s.Value) {
			bind += fmt.Sprintf(" %s = (%s)[zzk];", in.text(s.Value), x)
		}
	default: // `for range m`
		bind = fmt.Sprintf(" if _, zzok := (%s)[zzk]; !zzok { continue };", x)
	}
	fmt.Fprintf(&hdr, "for _, %s := range zzsimrt.OrderedKeys(%s, %q) {", kname, x, site)
	if yield {
		hdr.WriteString(" zzsimrt.Yield(\"" + fname + "/loop\");")
	}
	hdr.WriteString(bind)
	start := in.off(s.For)
	end := in.off(s.Body.Lbrace) + 1
	in.add(start, end-start, hdr.String())
	if post != "" {
		in.add(in.off(s.Body.Rbrace)+1, 0, post)
	}
}
