#!/usr/bin/env python3
import json,sys
o=json.load(open('/dev/shm/zvb/o.json'))
for cls in sys.argv[1:]:
    for f in o['found']:
        if f['class'].startswith(cls):
            w=f['world']
            print(f['class']); print(' ',f['detail'][:600])
            for s in w['schemas']: print('  schema', json.dumps(s))
            for t in w['tasks']:
                for op in t: print('  op', json.dumps(op))
            print('  dec', w.get('decisions'), 'params', w.get('params'), 'preempts', w.get('preempts'))
            print()
            break
