#!/bin/bash
# sensitivity.sh [pattern] : for every mutants/<name>.patch (matching pattern) apply it to a scratch
# copy of /repo, run the quick check of each property listed in mutants/<name>.props against the
# copy (VERIF_REPO) and require exit 1 with a VIOLATION line. Never touches /repo.
cd "$(dirname "$0")/.."
PAT="${1:-}"
BUDGET="${BUDGET:-6}"
fail=0
for p in mutants/*${PAT}*.patch; do
  name=$(basename "$p" .patch)
  props=$(cat "mutants/$name.props" 2>/dev/null)
  S=$(mktemp -d /dev/shm/zogmut.XXXXXX)
  rsync -a --exclude .git /repo/ "$S"/
  if ! (cd "$S" && git apply --unsafe-paths "$OLDPWD/$p" 2>/dev/null || patch -s -p1 < "$OLDPWD/$p"); then echo "$name: PATCH DOES NOT APPLY"; fail=1; rm -rf "$S"; continue; fi
  for prop in $props; do
    out=$(VERIF_REPO="$S" ./check "$prop" --budget "$BUDGET" 2>&1); rc=$?
    if [ $rc -eq 1 ] && grep -q "^VIOLATION property=$prop" <<<"$out"; then
      echo "$name: $prop DETECTED ($(grep -m1 '^violation class' <<<"$out"))"
    else
      echo "$name: $prop MISSED (exit $rc)"; fail=1
    fi
  done
  rm -rf "$S"
done
exit $fail
