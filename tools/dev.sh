#!/bin/bash
# dev.sh <prop> [count] [budget]: build into /dev/shm/zvb and run one worker, print summary
set -e
cd "$(dirname "$0")/.."
./tools/build.sh /dev/shm/zvb >/dev/null
/dev/shm/zvb/simcheck run -prop "$1" -seed ${SEED:-1} -count ${2:-20000} -budget ${3:-10} -out /dev/shm/zvb/o.json || true
python3 - <<'PY'
import json
o=json.load(open('/dev/shm/zvb/o.json'))
for k in ['worlds','ops','steps','nontrivial','wall_s','determinism_rechecks','harness_error']:
    print(k,o.get(k))
print('faults',o['faults']); print('probes',o['probes'])
for f in o['found'] or []:
    print(f['count'], f['class'], '::', f['detail'][:300])
PY
