#!/bin/bash
# refactor_check.sh [pattern] [budget]: behaviour-preserving refactorings must NOT raise an alarm.
# Applies each refactorings/*.patch to a scratch copy and runs every claimed quick check against it; requires exit 0.
cd "$(dirname "$0")/.."
PAT="${1:-}"; B="${2:-5}"
rc=0
for p in refactorings/*${PAT}*.patch; do
  name=$(basename "$p" .patch)
  S=$(mktemp -d /dev/shm/zogref.XXXXXX)
  rsync -a --exclude .git /repo/ "$S"/
  (cd "$S" && patch -s -p1 < "$OLDPWD/$p") || { echo "$name: patch does not apply"; rc=1; rm -rf "$S"; continue; }
  for id in $(python3 -c "import json;print(' '.join(c['property_id'] for c in json.load(open('MANIFEST.json'))['checks']))"); do
    out=$(VERIF_REPO="$S" ./check $id --budget $B 2>&1); c=$?
    if [ $c -ne 0 ]; then rc=1; echo "$name: $id ALARM (exit $c) $(grep -m1 '^violation class\|check:' <<<"$out")"; else echo "$name: $id quiet"; fi
  done
  rm -rf "$S"
done
git checkout -q -- evidence 2>/dev/null
exit $rc
