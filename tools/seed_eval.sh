#!/bin/bash
# seed_eval.sh <worktree> <seed-id> <budget> <prop> [<prop>...]
# Confirms a seeded change (compiles, existing suite passes, demo fails with / passes without), stores it under
# seeded/<seed-id>/ and runs the quick checks of the given properties against a scratch copy with the change applied.
cd "$(dirname "$0")/.."
WT="$1"; ID="$2"; B="$3"; shift 3
export GOFLAGS=-mod=mod GOPROXY=off GOSUMDB=off GOTOOLCHAIN=local
mkdir -p seeded/$ID
git -C "$WT" diff > seeded/$ID/patch.diff
[ -s seeded/$ID/patch.diff ] || { echo "empty patch"; exit 2; }
demo=$(cd "$WT" && git ls-files --others --exclude-standard | grep "zz_mutant_demo_test.go" | head -1)
[ -n "$demo" ] || { echo "no demo test"; exit 2; }
cp "$WT/$demo" seeded/$ID/$(basename $demo)
cp "$WT/MUTANT.md" seeded/$ID/MUTANT.md 2>/dev/null
S=$(mktemp -d /dev/shm/zogseed.XXXXXX); trap 'rm -rf "$S"' EXIT
rsync -a --exclude .git /repo/ "$S"/
demodir=$(dirname "$demo")
cp "$WT/$demo" "$S/$demo"
orig=$(cd "$S" && go test -vet=off -count=1 -run 'TestMutantDemo' ./$demodir/ 2>&1 | tail -1)
(cd "$S" && patch -s -p1 < "$OLDPWD/seeded/$ID/patch.diff") || { echo "patch does not apply to /repo HEAD"; exit 2; }
build=$(cd "$S" && go build ./... 2>&1 | tail -2)
mut=$(cd "$S" && go test -vet=off -count=1 -run 'TestMutantDemo' ./$demodir/ 2>&1 | tail -1)
rm "$S/$demo"
suite=$(cd "$S" && go test -vet=off -count=1 ./... 2>&1 | grep -v "no test files" | grep -vc "^ok")
echo "demo on original: $orig"; echo "demo with change: $mut"; echo "build: ${build:-ok}; failing packages in existing suite with change: $suite"
res=""
for prop in "$@"; do
  out=$(VERIF_REPO="$S" ./check "$prop" --budget "$B" 2>&1); rc=$?
  cls=$(grep -m1 '^violation class' <<<"$out")
  echo "check $prop: exit $rc $cls"
  res="$res $prop:$rc"
done
echo "$res" > seeded/$ID/last_result.txt
