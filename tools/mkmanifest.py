#!/usr/bin/env python3
"""Regenerates /verif/MANIFEST.json from the table below (keeps it valid and current)."""
import json
import os

HERE = os.path.dirname(os.path.dirname(os.path.abspath(__file__)))

TRUST = ("trusted: the source-level instrumenter (behaviour-preserving; the repository's own suite passes on the instrumented copy), "
         "the pool model (only ever hands out objects the library itself freed), Go's reflect/encoding/json/net/http; ")

CHECKS = {
    "C07": {
        "technique": "deterministic simulation: seeded histories over a simulator-owned sync.Pool model + relational oracle (probe after history vs. fresh process)",
        "text": "Seeded exploration of call histories (Parse/Validate/Collect*/aborted calls/pool clears) in which the simulator decides which recycled object every pool Get returns; "
                "each probe call is compared field by field with the same call in a fresh process; histories also go through the front ends (with reader faults) and contain documented edits of the global configuration (message map entries, global formatter, number coercers), after which every message must be worded by the configuration in force at that moment; some callbacks run complete executions of other schemas before they return (nested executions must return what they return alone, and the outer call must equal the same call without them). Sampling of a very large space: evidence, not proof; the right level because the property quantifies over histories and pool contents that only a controlled pool can reach.",
        "note": TRUST + "the relational oracle embeds no model of zog.",
        "design": "DESIGN.md §3 C07",
    },
}

MODEL = TRUST + "the reference model sim/harness/model.go (written from docs/ and the property statements; abstains where they are silent - DESIGN.md section 2.6)."
REL = TRUST + "the relational oracle embeds no model of zog."

CHECKS.update({
    "C01": {
        "technique": "deterministic simulation: seeded schema/input worlds under simulator-chosen field visit orders and recycled pools + independent re-evaluation of the destination",
        "text": "Seeded exploration of random schema trees, almost-valid inputs, both modes, every field visit order decided by the simulator and pools recycled across warm-up calls; whenever a call returns no issues every declared test, Required and NotNil is re-evaluated on the destination with predicates written independently of zog. Evidence by sampling; bounded depth (<=3, plus narrow chains of up to 14 path segments) and width (<=4).",
        "note": TRUST + "independent predicates for the generated tests (sim/harness/model.go TestPass).",
        "design": "DESIGN.md §3 C01",
    },
    "C02": {
        "technique": "deterministic simulation: seeded schema/input worlds under simulator-chosen visit orders and pools + executable reference model (multiset of path, code, type; nil-ness)",
        "text": "Seeded exploration of random schema trees with inputs biased to several simultaneous violations; each result is compared with an executable reading of the documentation as a multiset of (path, code, type) and for nil-ness, under simulator-chosen visit orders and pool recycling. Evidence by sampling within small bounds.",
        "note": MODEL,
        "design": "DESIGN.md §3 C02",
    },
    "C05": {
        "technique": "deterministic simulation: relational oracle, schema with Catch vs. the same schema without, same simulator-chosen visit orders",
        "text": "Seeded exploration of schemas with catching primitives at every placement; S and its Catch-free twin run on the same input under the same simulator-chosen visit orders; catching nodes must be silent and hold the catch value exactly when the twin fails there, everything else must be identical.",
        "note": REL,
        "design": "DESIGN.md §3 C05",
    },
    "C09": {
        "technique": "deterministic simulation: the simulator owns every map-range order; relational oracle across permutation vectors and insertion orders",
        "text": "Each generated (schema, data) is executed under 2-6 permutation vectors of every struct field visit (the simulator replaces Go's map iteration order), with reversed schema-map insertion order and reversed input key order; issue maps minus $first and, on success, destinations must be identical.",
        "note": REL,
        "design": "DESIGN.md §3 C09",
    },
    "C13": {
        "technique": "deterministic simulation: relational oracle Validate(&v) vs Parse(toMap(v)) under independently drawn visit orders and pool states",
        "text": "Seeded exploration of schemas and fully populated values; Validate in place and Parse of the same value from its map form, each under its own simulator-drawn visit orders and pool recycling, must report the same (path, code, type, message) and leave equal values.",
        "note": REL,
        "design": "DESIGN.md §3 C13",
    },
})

CHECKS.update({
    "C04": {
        "technique": "deterministic simulation: focused decision-table worlds (node kind x modifiers x input class x placement x mode) under simulator-chosen visit orders, sibling outcomes and recycled pools; model + recording callbacks + sentinels",
        "text": "Every node kind with every Required/Optional/Default/NotNil combination is placed at top level, among catching/failing siblings, in a slice, behind a pointer and in a struct inside a slice and fed each absent-looking and present-but-falsy input class in both modes; the decision table of the statement is checked through issues, recording tests and sentinel-prefilled destinations while the simulator varies the node's position in every visit order and the pool contents.",
        "note": MODEL,
        "design": "DESIGN.md §3 C04",
    },
    "C12": {
        "technique": "deterministic simulation: recording/failing callbacks (injected callback errors) under simulator-chosen visit orders; invocation log vs. reference model evaluated in lockstep with the chosen orders",
        "text": "Callbacks on every node of nested schemas record argument type, value, identity with the node's destination address and ctx.Get of every key; PostTransforms return injected errors; the log is compared with the model evaluated under exactly the field visit orders the simulator chose (which decide whether an issue existed at that moment).",
        "note": MODEL,
        "design": "DESIGN.md §3 C12",
    },
})

CHECKS.update({
    "C10": {
        "technique": "deterministic simulation: seeded schemas with struct tags through map/zjson/zhttp front ends over fault-free scripted readers, aborted predecessors (injected callback panics), simulator-chosen visit order deciding $first; structural invariants + path model + formatter-observed recording order",
        "text": "Structural invariants of every returned issue map (key = Path, $root, no duplicates, $first singleton and equal to the first issue the execution formatter observed under the simulator-chosen visit order), sanitizer equivalence, and the tag-priority / path-grammar model, over random nestings, tag combinations and front ends, after predecessors some of which were aborted by injected callback panics. One open finding (F-TAGS, nested/empty-record tags) is reported as KNOWN-FINDING; everything else stays strict.",
        "note": MODEL,
        "design": "DESIGN.md §3 C10",
    },
    "C11": {
        "technique": "deterministic simulation: catalogue cells and random formatter layers executed on fresh and on dirtied, adversarially recycled pools with global formatter swaps; per-issue field oracle using the shipped language maps as data",
        "text": "The finite catalogue (every built-in test x type, required/not_nil/coerce, front-end decode failures) x {default, i18n en/es/unknown/no language, custom global formatter} is sampled uniformly and each cell runs on fresh pools and after a dirtying history under adversarial pool recycling; random schemas add test-level, execution-level and global formatter layers. Each issue is checked for code, type, own params, non-empty placeholder-free message, precedence and language.",
        "note": MODEL + " The shipped language maps (i18n/en, i18n/es) are used as data to recognise which language produced a message.",
        "design": "DESIGN.md §3 C11",
    },
})

CHECKS.update({
    "C06": {
        "technique": "deterministic simulation with fault injection: fault-scripted readers (error / truncation / EOF-with-data / stalls / short reads / close error at drawn offsets) over zjson, zhttp and zenv, recycled pools after aborted calls; plus seeded Go-value generation (reported separately); recover() monitor",
        "text": "Half of the worlds drive the front ends with schema-shaped and hostile JSON documents, forms, query strings and environments through a reader whose every Read is scripted by the simulator, on pools recycled after histories that include calls aborted by injected callback panics. The other half feeds Go values of any dynamic type at every input position and schema keys longer than 32 bytes; this half involves no schedule or fault and is plain seeded generation, reported as such. Oracle: recover() and a step cap.",
        "note": TRUST + "the generator never builds a schema/destination mismatch, so every panic is a violation.",
        "design": "DESIGN.md §3 C06",
    },
    "C14": {
        "technique": "deterministic simulation: one logical record rendered to six front ends over readers with simulator-scripted benign behaviours, process environment as a simulator-owned store; relational oracle across front ends",
        "text": "One generated logical record is rendered as Go map, JSON (zjson, zhttp), form, query and environment using each source's tag rules, delivered through scripted readers (chunking, one-byte reads, EOF-with-data, stalls) with permuted key order; destinations and issue multisets must agree across front ends up to the documented differences. One open finding (F-NESTED-FLAT) is reported as KNOWN-FINDING.",
        "note": REL,
        "design": "DESIGN.md §3 C14",
    },
    "C15": {
        "level": "fault_enumeration",
        "technique": "deterministic simulation with enumerated fault injection: for every generated request, truncation / read error / error-with-data at EVERY byte offset of the body under two chunkings (one replayable world each); dispatch table + decode-failure contract",
        "text": "Requests over method x Content-Type x parameters x body class with distinct sentinel values per source; for each request the body reader's fault space (three fault kinds at every byte offset, two chunkings, close errors) is enumerated completely, one world per point. The documented dispatch is read off the sentinels by comparing with the chosen source's record parsed through the plain map front end; undecodable bodies must give exactly one top-level invalid_json/invalid_form issue, no schema callback and an untouched destination.",
        "note": TRUST + "net/http and encoding/json define what 'decodable' means for a delivered prefix; the harness computes the shortest complete JSON prefix itself.",
        "design": "DESIGN.md §3 C15",
    },
})

CHECKS.update({
    "C08": {
        "technique": "deterministic simulation: baton scheduler over instrumented yield points with seeded preemption points, pool hand-off between tasks; per-operation solo-equivalence oracle; Go race detector made deterministic by hiding the baton hand-offs (RaceDisable) and re-creating sync.Pool's edges",
        "text": "2-4 tasks (3 % of the worlds: a crowd of 36-46 tasks, each stopped half-way through its call before the next one starts) share schemas and the pool model; the simulator decides every preemption (at function entries, loop heads, pool calls, callbacks) and which task's freed objects another task receives. Every operation must equal its task's solo result under the same visit orders, uncollected results must not change, schema fingerprints must not change. Half as many worlds run in the -race build with a lean simulator the detector cannot see, so that the detector reports exactly the conflicting accesses the library does not order - in a replayable execution.",
        "note": REL + " Interleavings are explored at yield-point granularity; the race layer covers unsynchronised accesses between yield points in the executions it observes. sync.Pools inside fmt/encoding are real and may add incidental ordering.",
        "design": "DESIGN.md §3 C08, §2.7",
    },
    "C16": {
        "technique": "deterministic simulation: simulator-interleaved builder programs of several clients over a shared base schema; after every step every live schema vs. a hand-built equivalent",
        "text": "2-4 clients run programs of Pick/Omit/Extend/Merge/TestFunc/PostTransform over one base (with spare capacity in its test/transform slices) and over each other's results; the simulator picks the interleaving; after every single builder call every live schema is executed next to a schema written out by hand from the model and must run the same callbacks in the same order and give the same result.",
        "note": TRUST + "the model of the four helpers (set semantics, later operands win, concatenation for Merge) written from the statement and the helper documentation.",
        "design": "DESIGN.md §3 C16",
    },
    "C19": {
        "technique": "deterministic simulation: histories (and two concurrent tasks) of executions with destination-mutating PostTransforms; snapshots of inputs and schema-owned values, reflection/unsafe schema fingerprint, first-use vs later-use relation, aliasing probe",
        "text": "Histories of 2-6 executions (or two scheduled concurrent tasks) on one schema with slice and scalar Defaults, Catch values and OneOf/Contains lists while PostTransforms mutate the destinations they are handed; after every call inputs, harness-side handles on schema-owned values and the schema's deep fingerprint must be unchanged, a repeated call must repeat its result under the same visit orders, and no destination slice may share its backing array with a Default.",
        "note": REL + " The fingerprint hashes function values by identity only (state captured by closures is observed through the harness-side handles instead).",
        "design": "DESIGN.md §3 C19",
    },
})

NOT_APPLICABLE = {
    "C03": "pure function of (schema options, input): no schedule, history, fault or shared state enters it; DESIGN.md §4",
    "C17": "builder-time semantics, a pure function of the chain of builder calls; nothing nondeterministic or faulty to simulate; DESIGN.md §4",
    "C18": "pure arithmetic of numeric coercers; an input-space boundary sweep, not a simulation; DESIGN.md §4",
    "C20": "pure predicates of one argument; exhaustive/randomised input enumeration is the right tool, simulation adds nothing; DESIGN.md §4",
}

PENDING = "check under construction in this session (see DESIGN.md §7 order of construction); not claimed yet"

ALL = ["C%02d" % i for i in range(1, 21)]


def main():
    checks = []
    for pid in ALL:
        c = CHECKS.get(pid)
        if not c:
            continue
        checks.append({
            "property_id": pid,
            "quick_cmd": "./check %s --tier quick" % pid,
            "thorough_cmd": "./check %s --tier thorough" % pid,
            "evidence_file": "/verif/evidence/%s.json" % pid,
            "replay_cmd_template": "./check %s --replay {path}" % pid,
            "engine": "zog-dst",
            "level_claimed": {"category": c.get("level", "exploration"), "text": c["text"], "design_ref": c["design"]},
            "level_note": c["note"],
            "technique": c["technique"],
        })
    na = []
    for pid in ALL:
        if pid in CHECKS:
            continue
        na.append({"property_id": pid, "reason": NOT_APPLICABLE.get(pid, PENDING)})
    m = {
        "version": 1,
        "setup_cmd": "cd /verif && ./tools/setup.sh",
        "hooks": {
            "guard": "none (build-time instrumentation of a scratch copy of /repo; no hook is committed to /repo)",
            "enable": "each check copies /repo's working tree to a scratch dir, rewrites it with /verif/tools/instr (map ranges -> simulator order, sync.Pool -> pool model, yield points) and builds the simulator there",
            "baseline_off_cmd": "cd /repo && GOFLAGS=-mod=mod go test -vet=off -count=1 ./...",
            "source_commits": [],
            "add_only": True,
        },
        "engines": [{
            "name": "zog-dst",
            "path": "/verif/check",
            "serves_properties": [c["property_id"] for c in checks],
            "kind_free_text": "deterministic simulator with fault injection: seeded worlds (schemas, operations, tasks), simulator-owned map iteration order, sync.Pool model, fault-scripted readers, recording/failing callbacks, baton scheduler; relational oracles and an executable reference model; world minimiser and replay files",
        }],
        "checks": checks,
        "notes": "Exit codes: 0 held, 1 + VIOLATION line, 2 infrastructure trouble (never a verdict). VERIF_SEED selects the base seed; VERIF_JOBS the worker count (default 16). Genuine defects repaired in /repo are listed in known_findings.json.",
        "not_applicable": na,
    }
    with open(os.path.join(HERE, "MANIFEST.json"), "w") as f:
        json.dump(m, f, indent=1)
    print("MANIFEST.json: %d checks, %d not claimed" % (len(checks), len(na)))


if __name__ == "__main__":
    main()
